#!/usr/bin/env python3
"""Generates /verif/MANIFEST.json from the table below (single source of truth) and
validates it against /root/.vp/MANIFEST.schema.json when jsonschema is importable."""
import json
import os
import sys

HERE = os.path.dirname(os.path.dirname(os.path.abspath(__file__)))

CHECKS = {
    "C01": dict(
        technique="TLC model checking of Tick.tla/MC_C01.tla (all enqueue orders and repetitions; outcome = oracle of the candidate set) + spec->impl replay into a real Engine on 4 configurations + model-derived metamorphic relation on real hashes per candidate set",
        text="TLC explores every enqueue sequence (order and repetition) over a candidate universe of data-driven rewrite programs with honest footprints on several multi-instance "
             "pre-states, through explicit Enqueue/Drain/Reserve/Commit actions, and proves the committed outcome equals a declarative oracle of the candidate SET (canonical greedy "
             "admission; post = pre patched by exactly the accepted effects evaluated at pre). Every behaviour is replayed into a real Engine (Radix/Legacy x 1/4 workers): receipt order, "
             "dispositions, blockers, post-state and patch replay must equal the oracle, and within each (pre-state, candidate set) group state root, patch digest, commit id, "
             "plan/decision/rewrites digests and receipt digest must be bit-identical. Several id salts explore several canonical key orders. Quick replays every exported behaviour; thorough model-checks 3.2 M states per salt and replays whole permutation groups selected by a fixed hash rule (about 50 000 behaviours per salt, recorded in evidence as replay_sampling).",
        note="Bounded model (pre-states, candidate universe, sequence length); table-driven rules (harness/src/programs.rs) mirror spec/Tick.tla Prog; scope-hash order supplied by the harness; batch sizes beyond the 1024 threshold are covered by the C03 drain-order traces.",
        design="3 C01"),
    "C02": dict(
        technique="TLC model checking of ParallelExec.tla/MC_C02.tla (all Claim/Exec interleavings of W workers over (warp, shard) units) + spec->impl replay of every claim script into the real execute_work_queue via the claim hook + trace validation of real racing threads (ParallelExecTrace.tla) + policy matrix",
        text="TLC explores every interleaving of worker Claim/Exec steps over the shared claim counter (hence every unit-to-worker assignment and per-worker order) for every candidate subset of "
             "two multi-instance pre-states and proves claims partition the units and the merged ops / post-state equal the serial ones. Every distinct final (scenario, claim script) is scripted "
             "into the real work queue through Engine::commit_with_receipt with workers(n): the recorded claim log must equal the script, the post-state the model's, the patch must replay, and all "
             "scripts and worker counts of one (pre-state, candidate set) must give bit-identical hashes. Real racing threads (1..32 workers, up to ~2100 units, 3 instances) are validated from "
             "per-worker claim logs by a trace spec, and the five execution policies x 1..8 workers are compared with execute_serial by canonical patch digest.",
        note="Bounded scenarios for the exhaustive leg; claim hook (cfg echo_verif) substitutes scripted unit indices for counter draws and records claims; worker index = spawn order.",
        design="3 C02"),
    "C14": dict(
        technique="TLC model checking of ParallelExec.tla/MC_C02.tla with fault-injecting and under-declaring programs (every access kind, every op kind, every worker schedule) + scripted replay into the real enforced work queue + model/real comparison of op write-target attribution (MC_C14attr.tla, Graph.tla Touched/Attributed)",
        text="The ParallelExec model is run with violators (one undeclared node/adjacency/attachment/edge read, one undeclared write per op kind, cross-instance emission, instance-level ops, a plain "
             "panic, or a declaration missing one footprint class) placed among honest rewrites under every worker schedule; invariants: an accepted violator always poisons the tick and nothing "
             "becomes visible, honest rewrites are never flagged. Every (scenario, script) is replayed into the real enforced engine: the commit must fail with Engine::state() unchanged exactly when "
             "the model says so, and the violation kind is compared. The attribution sentence is decided by exporting, for every state and op, the locations whose observable content changes but "
             "are not attributed (model) and recomputing them on the real store with the real op_write_targets.",
        note="Enforcement compiled in (debug-assertions harness build); executor reads performed unconditionally in a fixed order; findings F3/F5 are listed in known_findings.json and printed as KNOWN-FINDING.",
        design="3 C14"),
    "C03": dict(
        technique="TLC model checking of Footprint.tla/Scheduler.tla/MC_C03.tla (all footprint-class tuples, Radix and Legacy in lock-step vs declarative greedy oracle) + spec->impl replay through the raw scheduler hook + trace validation of drain order (SchedulerTrace.tla)",
        text="TLC enumerates every pair (512^2 in thorough), triple and quadruple of footprint classes and proves on the model that the transcribed Radix and Legacy reserve "
             "loops equal the declarative canonical greedy independent set with exact, non-empty blocking witnesses, that a rejected candidate marks nothing, and that the three "
             "conflict predicates in the code are one symmetric relation; every enumerated tuple is then driven into the real DeterministicScheduler (both kinds, both enqueue "
             "orders) and reserve_for_receipt and must reproduce those decisions and witnesses. Drain order for adversarial key sets across the 1024 threshold is validated by a "
             "trace spec (strictly increasing lexicographic order of the last-wins key set).",
        note="One resource per class and two instances (conflicts depend only on key equality); hooks Engine::verif_enqueue_raw / verif_drain_reserve; raw rule ids are big-endian compact ids.",
        design="3 C03"),
    "C04": dict(
        technique="TLC model checking of Graph.tla/MC_C04.tla (all ordered state pairs) + spec->impl replay of every pair into diff_state/apply_to_state + ledger leg: TLC over Ledger.tla/MC_C04l.tla (one Engine over every script of <=3-4 tick/abort steps: patch-per-tick replay, commit chain, snapshot, jump_to_tick for every k, worldline slices) replayed into a real Engine under both schedulers x 1/4 workers",
        text="Every ordered pair (a,b) of reachable well-formed states of bounded graph universes is visited by TLC; the patch law "
             "ApplyOps(a, Diff(a,b)) in {b} u Err is an invariant of the model, and each pair is rebuilt in the real store where the real "
             "diff_state + WarpTickPatchV1::apply_to_state outcome must be exactly b (projection, per-store hash, state root, accumulator root) "
             "or a typed error. Exhaustive within the stated constants; the right level because the law is over all state pairs.",
        note="Bounded universes (cfg constants); TLC; the harness projection; hooks verif::diff_state / upsert_instance / warp_ids.",
        design="3 C04"),
    "C06": dict(
        technique="TLC model checking of MC_C06.tla (Canon facts over all states) + model-derived metamorphic relation root(s1)=root(s2) <=> Canon(s1)=Canon(s2) on the real hashes",
        text="TLC enumerates every state of a bounded multi-instance universe containing reachable and unreachable content and exports Canon(s, root) "
             "(the value the root must commit to, transcribed from compute_state_root) for each candidate root; the harness builds each state in five "
             "construction orders and the runner requires root equality exactly when Canon is equal across ALL explored states, accumulator root = "
             "store-walking root, order-independent WSC bytes and WSC read-back denoting the same state. Hashes are abstract in the model, so the hash claim is "
             "decided as a model-derived relation on real hashes.",
        note="Bounded universe; BLAKE3 collision-freeness; hooks verif::legacy_state_root / accumulator_state_root / apply_ops.",
        design="3 C06"),
    "C18": dict(
        technique="TLC model checking of MC_C18.tla over Bus.tla (every emission order of every bounded token subset; finalize = order-free oracle of the emission set) + conformance replay into the real MaterializationBus (all n! orders for sets up to 7) + metamorphic relation on real bytes/digest/encodings + trace validation (BusTrace.tla) of seeded 8-40-emission runs + truth leg: TLC over TruthBus.tla/MC_TruthBus.tla (the bus inside Engine transactions: begin/emit/commit/abort/failed commit, recorded outputs, ViewSession/TruthSink playback) with every transition replayed into a real Engine, ProvenanceService, PlaybackCursor, ViewSession and TruthSink and twin-engine order/worker metamorphic runs",
        text="Bus.tla transcribes register/emit/finalize and the eight reducers on byte sequences and carries a second, declarative oracle defined on the emission SET (for commutative reducers on the payload BAG only). "
             "TLC walks every order of every subset (perm cfgs, repeated (channel,key) included) or every repeat-free subset (set cfgs) and checks that pending is the set of first arrivals, a repeat is rejected and changes "
             "nothing, and the report equals the oracle. Every finalized behaviour is exported with its predicted report and replayed on the real bus through ScopedEmitter; for set cfgs the harness replays all permutations. "
             "The runner decides the property on the real outcomes: same policies and same emission set give identical finalized bytes, conflicts, compute_emissions_digest, encode_frames and encode_v2_packet bytes; each "
             "(channel,key) is accepted exactly once and a rejected emit leaves no trace; commutative channels with the same payload bag give the same bytes whatever the keys. Seeded larger sets in several shuffles are logged "
             "and validated by BusTrace.tla.",
        note="Bounded universes (2-3 channels, <=6 keys, payload lengths 0,1,2,3,8,9); abstract keys/channels mapped by monotone tables; BLAKE3 collision-freeness; a conflicting repeat keeps the first arrival (emission set = set of first arrivals). No hook needed.",
        design="9.2 C18"),
    "C20": dict(
        technique="TLC model checking of Cas.tla/MC_C20.tla (memory and disk blob tiers, 7 file faults, retention index) and CasExport.tla/MC_C20x.tla (export profiles) + spec->impl replay of every bounded behaviour into the real MemoryTier/DiskTier/RetainedBlobIndex and of every (record set, profile, tamper) into the real wsc_*_wal_export / validate_wsc_*_wal_export + fault sweep of every stored file",
        text="TLC checks on the full state space of both tiers that get(h) is None, a typed error or the bytes hashing to h, that a mismatching verified put is refused with the store unchanged, that writes are idempotent, pin/unpin and reads never change content, the disk tier persists across reopen, coordinates are never rebound or aliased and corrupt files are detected on read. Every behaviour of 3-5 calls (put, put_verified, get, has, pin, unpin, reopen, retain, load, "
             "flip/truncate/swap/delete/stray-temp/junk/dir faults) over 2-3 blobs, plus random 12-call behaviours, is replayed into the real tiers: every result and the full observable state after every call is compared with the model, and the property is decided independently on the real results (returned bytes re-hashed, refused writes leave every observable unchanged). Populated disk tiers have every file bit-flipped, truncated, overwritten, "
             "deleted and shadowed by stray temp files. Generated WAL record sets are exported through the self-contained, CAS-addressed and reference-only profiles and re-imported with each referenced blob withheld or corrupted: same records or a typed error, never different content.",
        note="Bounded scope (2-3 blobs, 1-2 coordinates, 3-5 calls exhaustive, 12 calls sampled; single-segment WALs with 1-3 submissions and 0-2 retained readings); content id modelled as identity; faults applied between calls. Finding F7 (MemoryTier::put_verified) fixed in fc16d86.",
        design="9.4 C20"),
    "C15": dict(
        technique="TLC model checking of Strands.tla/MC_C15.tla (fork at every parent tick, every interleaving of parent and strand ticks over disjoint / read-overlapping / write-overlapping / obstructing footprints, both plural policies, a failure at every settlement step, sibling and chained strands with a support pin, re-settlement) + spec->impl replay of every behaviour into the real WorldlineRuntime / ProvenanceService / Engine + braid-shell leg: TLC over BraidShells.tla/BraidLog.tla (retained shells, audit/replay, collapse under every policy/selection, braid event log lifecycle) replayed into the real settlement / braid-shell API and a real Braid",
        text="Strands.tla transcribes fork_strand, one super_tick head commit, pin_support, live_basis_report, plan_with_policy_internal (sticky blocking, clean-overlap revalidation, plural policy) and settle_with_policy_internal (checkpoint, one entry per decision, shell last, restore) over worldlines = slot->value map + entries carrying in/out slots, diff ops and the state after. TLC checks ForkIsExactPrefix, NoSharedHeads, lane isolation in both directions, PlanIsPure, SettleAllOrNothing, "
             "ImportedSlotsTakeStrandValues, ParentChangedSlotsNeverOverwritten, BlockingIsSticky and ParentStaysReplayable on every state and exports every complete behaviour with the predicted outcome of each call. The harness replays each one through fork_strand, ingest + super_tick with a table-driven rule declaring exactly the model footprint, pin_support and SettlementService::{compare, plan_with_policy, settle_with_policy}, and decides the property on the real outcome after every step "
             "(receipt = source entry, copied prefix entry by entry, fresh heads only, lane isolation, plan purity by fingerprints, exact restoration after a failure injected before every decision and at the shell step, no parent-written slot changed, imported slots = strand values, every lane replayable, each import compared with re-running its tick on the parent basis).",
        note="Bounded (<=2+2 ticks after the fork, 3 attachment slots + 1 node slot, <=2 strands, <=2 settlements); honest footprints assumed (C14); failures injected via verif_set_global_tick overflow and a pre-bound plural id; findings F8/F9 listed in known_findings.json; MC_C15_asbuilt.cfg keeps the model counterexample for them.",
        design="9.4 C15"),
    "C10": dict(
        technique="TLC model checking of Wal.tla/MC_C10.tla (host calls in code order, store faults at every position, Crash keeping any byte prefix >= synced x any ledger version on disk, Recover, <=2 crash-recover-continue cycles) + trace validation (WalTrace.tla) of physical crash probes on a real TrustedRuntimeHost with a filesystem WAL (segment cut at byte b x coexisting ledger version, opened by a fresh host) + FilesystemWalFaultPlan injection before every host call + two fixed real-process scenarios predicted by the as-built model",
        text="The model transcribes submit/tick (mutate memory, append frames unsynced, append commit marker + sync, persist the writer-epoch ledger by atomic replace, then acknowledge/publish), the fault repair path and reopening; TLC proves on every state that acknowledged/published subsets are recoverable from the durable bytes, reopening never fails, the transcribed scan equals the declarative committed prefix, no partial transaction is visible, recovery is idempotent, retries are duplicates. Seeded workloads run on a real host; for sampled (quick) or every (thorough) byte length of the segment and every ledger version that can coexist, "
             "a fresh host is opened on the materialised directory, recover_read_only runs twice, the view (every IntentOutcome with receipt digests, state roots, ticks, provenance length, certificate roots) must equal the uninterrupted host's view at that commit, callbacks must not run, read-only entry points must not touch files, retries must be Duplicate and the continued run must end like the uninterrupted one; WalTrace.tla judges every probe and fault event with Wal.tla's operators.",
        note="Physical leg models process kill (written = surviving); power loss only on the spec. Ledger versions captured between host calls. Findings F11 (lsn gap after an epoch without commit) and F12 (crash during tail-truncation rewrite) are listed in known_findings.json.",
        design="9.4 C10"),
    "C11": dict(
        technique="TLC enumeration of MC_C11.tla over Wal.tla (one corruption edit of a committed log: region damage, truncation, delete/duplicate/swap/transplant of a record, delete/transplant of a transaction, second log with equal LSNs; as-built transcription of the recovery scan; Repaired variant as invariant) + spec->impl replay of every case on real segment bytes + trace validation (WalTraceC11.tla) of systematic mutation through recover_wal_segment_bytes, recover_filesystem_store, doctor_filesystem_store, validate_filesystem_manifest and enable_runtime_wal + segmented leg: TLC over WalSeg.tla/MC_C11s.tla (segment files, manifest, epoch ledger; one edit per case; writer lifecycle machine) replayed on store-level and host-level rotated logs",
        text="Every model edit is exported with the class (err / prefix / nonprefix) the transcribed recovery predicts and applied to the real bytes of logs written by a real host (log B = same calls, other payloads, equal LSNs); prediction vs real class is reported as drift (zero on the tree). Independently every record- and transaction-level edit of a generated submit/stage/tick log, bit flips and zeroed ranges (every bit and aligned 8-byte range of a <=4 kB log in thorough), truncations, ledger and manifest edits run through all entry points; recovered histories are compared as identity+content digests "
             "and the trace spec requires every successful result to be a prefix of the committed history.",
        note="Abstract hashes in the model; the Repaired model anchors the chain at genesis. Finding F13 (chain digests never compared, commit markers not de-duplicated: 20 edit x entry-point keys) is listed in known_findings.json.",
        design="9.4 C11"),
    "C05": dict(
        technique="TLC model checking of Provenance.tla/MC_C05.tla (chain mode: every interleaving of two-head appends on two worldlines and a fork; tamper mode: every (position, field, variant) alteration, swap/duplicate/truncate/drop/transplant and tampered checkpoint with the predicted re-verification outcome) + spec->impl replay of every tamper case on entries appended by the real runtime, through append validation, replay_worldline_state_at, PlaybackCursor::seek_to, checkpoint insert/restore, validate_btr and import_suffix + trace validation of appended entries (ProvenanceTrace.tla) + transport leg: TLC over SuffixTransport.tla/MC_C05s.tla (importer basis states x export ranges x ~600 tampers of bundle/shell/refs/entries/BTR/request) replayed through the real export_suffix / import_suffix / append / replay / validate_btr",
        text="The model gives every entry the fields of ProvenanceEntry/HashTriplet/patch header/receipt with hashes as injective constructors and transcribes validate_shared_entry/validate_local_commit_entry, the replay checks, checkpoint validation and fork. Chain mode proves, over every interleaving of coordinator appends of two heads on two worldlines and a fork, append-only and gap-free histories, parents = previous tip, commit id = H(parents, root, patch digest, policy), that every prefix re-verifies and the hash relation equal inputs <=> equal commit id. "
             "Tamper mode enumerates every (position, field, variant) of a catalogue covering every entry field (including field+digests recomputed consistently), swap, duplication, truncation, cross-worldline transplant and tampered checkpoints; it predicts err | same | diff. Each case is applied to real entries (all fields are pub) produced by the real runtime; the property is decided on the REAL outcome through every entry point - typed error or exactly the original graph, roots, tick history, receipts and last materialization - and again on random multi-head "
             "multi-worldline histories at every position; BTR records and suffix bundles get their own field-by-field alterations. Every entry the runtime appended is validated by a trace spec reusing the spec's AppendEntry/Fork.",
        note="Bounded model (3 worldlines x 3 entries). A transplant with every id rewritten consistently is accepted only as the donor worldline's own verified history (checked). Findings F14 (entry.outputs), F15 (dropped tick_receipt), F16 (diagnostic plan/rewrites digests) are listed in known_findings.json.",
        design="9.4 C05"),
    "C07": dict(
        technique="TLC model checking of Provenance.tla/MC_C07.tla (every checkpoint subset x unforked/forked-at-every-tick worldline x every cursor action sequence; invariant materialized = StateAt(tick)) + spec->impl replay of every behaviour into the real PlaybackCursor/ProvenanceService over histories produced by the real runtime, against the live record and a checkpoint-free U0 replay + trace validation of cursor decisions on long random histories (ProvenanceCursorTrace.tla)",
        text="SeekTo transcribes PlaybackCursor::seek_to exactly (pin and history bounds, no-op, restore when target < tick or the nearest checkpoint at or below the target lies strictly above the cursor - then nearest checkpoint or U0 - else advance), Step transcribes every PlaybackMode for both roles, AddCheckpoint transcribes validate_checkpoint_for_history, Fork copies the prefix and the checkpoints <= t+1. TLC proves that after every action the materialized value (state, tick history, last materialization) equals the fold of the worldline's entries from U0, "
             "for every checkpoint subset, fork tick and action sequence, and exports each behaviour with the predicted tick, mode, result and path. The harness produces the histories with the real WorldlineRuntime/super_tick (two heads), records the live frontier at every tick, places real checkpoints as the scenario says, and after every cursor action compares graph content, root, state root, the whole tick history (commit ids, receipts, patches) and last materialization with the live record and with a checkpoint-free U0 replay; the path taken is observed "
             "through a recording ProvenanceStore. Long seeded histories (50-200 ticks) get random seek/step/mode/checkpoint/fork sessions with the same oracles, validated by a trace spec.",
        note="Bounded model (N <= 5, alphabet per cfg). committed_ingress and last_materialization_errors are not compared (replay resets them by contract). A path decision that differs from the model while the state is right is reported as drift.",
        design="9.4 C07"),
    "C16": dict(
        technique="TLC model checking of Observe.tla/MC_C16.tla (whole request alphabet evaluated in every reachable state and across every transition) + trace validation of real multi-worldline runs with interleaved reads (ObserveTrace.tla) + direct decision in the harness (state fingerprints around every read, replay at the coordinate, re-asked historical requests) + model-derived relations on real artifact hashes / optic read identities",
        text="Observe.tla transcribes ObservationService::observe / observe_optic as a FUNCTION of the observable runtime (per-worldline recorded history, global tick, strand forks, checkpoints). MC_C16 evaluates every request of a finite alphabet (all frame x projection pairs incl. invalid ones, plan/instance/rights/budget variations, query observer, frontier, every explicit tick incl. future ticks, unknown worldline; optic foci, coordinates incl. provenance refs, apertures and budgets) in every reachable state and proves: a read leaves the runtime unchanged; a settled reading at an explicit tick is "
             "invariant under every later commit / pass / fork / checkpoint (only observed_after moves); unavailable history is a typed error; a mismatching provenance ref is never answered. The harness drives seeded histories on the real WorldlineRuntime / ProvenanceService / Engine with reads interleaved, logs request, reading or typed error and BLAKE3 fingerprints of runtime, provenance and Engine::verif_fingerprint() around every read; ObserveTrace.tla accepts the trace only if fingerprints are equal, every field equals the model's derivation from the logged history, re-asked historical requests "
             "return the identical coordinate-bound reading, and artifact hash / read identity are injective functions of the abstract artifact. The harness independently compares each historical reading with replay_worldline_state_at and PlaybackCursor.",
        note="Bounded model (1 base worldline + 1 fork child, history <= 2). Traces are seeded samples (quick ~3.4k reads, thorough ~31k reads). Only receipt_correlation_full_scan_count is masked in fingerprints. Recorded outputs are imported because engine rules do not emit. Finding F6 (optic provenance ref commit not checked) fixed in d7948ba.",
        design="9.4 C16"),
    "C17": dict(
        technique="TLC model checking of ExtAction.tla/MC_C17.tla (lifecycle x durable log x crash/fault points, 14 invariants) + spec->impl replay of every bounded behaviour into the real ExternalActionCoordinatorV1 over a fault-injecting WalStorePort + model-derived root-digest relation + trace validation (ExtActionTrace.tla) of seeded random runs + size-boundary leg: the same behaviours replayed with the model budget Bound read as the protocol ceiling (1 MiB results) + filesystem leg: TLC over ExtActionFs.tla/MC_C17fs.tla (byte-level log, crash keeping any byte prefix of the transaction in flight, scan / repair / recover / continue) replayed as real processes over the real FilesystemWalStore with the segment cut at the real byte, plus byte sweeps of scripted lifecycles",
        text="ExtAction.tla models per request id the posture none/requested/claimed/settled, the durable log of frames and commit markers with an unsynced tail, the volatile coordinator (index, incremental root, WAL continuation, ready flag) and Record/Claim/Settle/Retry/Observe with every rejection reason of external_action.rs, each durable step as Call; AppendFrame; FlushCommit; Return with a store fault before/after effect at every append/flush, a crash at every frame, and Recover. TLC checks lifecycle-prefix, one-grant, exact-attempt/bounds, durable-before-return, "
             "RecoveredIndex=LiveIndex, RecoveredRoot=IncrementalRoot, retry-from-retained and no-step-repeated on every state, and exports every behaviour of the bounded models; the harness replays each into the real coordinator over the real InMemoryWalStore behind a WalStorePort that fails or unwinds at the named store call, and after EVERY step decides the property on the real outcome (recovered coordinator == live coordinator incl. root_digest, <=1 distinct claim grant, settlement lawful against the durable claim, returned grant's commit flushed, "
             "retry == retained settlement with no store call, commits == lifecycle stages) and compares class/postures/grants/tail with the model. Root digests are abstract in the model and decided as equal index content <=> equal real digest over all behaviours. Long random interleavings over 12 request ids are covered by trace validation.",
        note="Bounded models (<=3 request ids, <=6 ops exported, <=7 ops invariants-only; budgets in the cfg files); InMemoryWalStore only (filesystem store is C10/C11); crash = coordinator dropped, store kept, uncommitted frame kept or lost; BLAKE3 collision-freeness.",
        design="9.4 C17"),
    "C09": dict(
        technique="TLC model checking of Runtime.tla/MC_C09.tla (SuperTick transcribed operationally with checkpoint/rollback/fault records/recovery; bounded scenario generator over topologies, failure kinds, failing positions and passes) + spec->impl replay of every behaviour into the real WorldlineRuntime/SchedulerCoordinator/ProvenanceService/Engine with full Debug fingerprints around every pass + kernel-port leg: TLC over KernelPort.tla/MC_KernelPort.tla (dispatch / Start with cycle limits / Stop / SetHeadEligibility / reads on the host-facing WarpKernel; every transition and every bounded behaviour) replayed into the real warp-wasm kernel compiled from source",
        text="TLC explores every behaviour of a generator over 1..3 worldlines x 1..4 writer heads (every shape up to 6 heads), up to 3 passes, a special aimed at every head before every pass (executor panic, undeclared write/read, foreign-instance op, inapplicable op => typed engine error, frontier/global tick at MAX, provenance append rejection after the engine commit, receipt-correlation conflict after the head's commit, lawful footprint conflict, dormant head) and the operator reactions none / resolve / repair+resolve / double resolve; "
             "invariants: a failed pass changes only fault evidence, success advances each committed worldline by one per commit and the global tick by one, canonical head order, quarantined heads skipped, head-scoped faults never block other heads, lawful rejections are receipts. Every behaviour is replayed action by action into the real runtime with a failure-injecting command rule; after every action the projection is compared, and after every failed pass the Debug fingerprint of runtime + provenance + engine scratch must equal the pre-pass one outside "
             "the masked fault-evidence fields. The property is decided on the real outcome.",
        note="Bounded generator (<=6 heads, <=3 passes, one special per behaviour); a head commit is abstracted to a function of the admitted set and intent behaviour class (bound by C01); enforcement compiled in; hooks verif_set_global_tick / verif_set_frontier_tick / verif_set_inbox_policy and Engine::verif_fingerprint; mask = scheduler_faults, faulted_heads, runtime_fault, next_scheduler_fault_generation, runnable (re-derived and cross-checked), receipt_correlation_full_scan_count.",
        design="9.4 C09"),
    "C08": dict(
        technique="TLC model checking of Runtime.tla/MC_C08.tla (all interleavings of ingest/submit/ticketed staging/SetPolicy/SuperTick, unbounded retries, state invariants + transition laws) + spec->impl replay of every transition of the state graph + model-derived metamorphic relation over all permutations and retry multiplicities + identity-law grid + restart scenarios + legacy-inbox leg: TLC over Inbox.tla/MC_C08l.tla (graph-backed inbox: all arrival permutations x retries x transaction placements) replayed into a real Engine under both schedulers",
        text="TLC explores all interleavings of ingress calls (default/named/exact/missing routes, 2 kinds, one intent citing a causal parent, any number of retries), inbox policy changes (AcceptAll, KindFilter with eviction, Budget 0..2) and scheduler passes, and proves at-most-once per head, pending/committed disjointness, retry idempotence, the disposition law, id-ordered budgeted admission and that nothing admitted is lost. Every transition of the explored graph is replayed from a witness path into the real WorldlineRuntime (ingest, submit_intent, "
             "ticketed staging, super_tick): dispositions, pending/committed membership, StepRecord counts, admitted sets and correlations must match, a Duplicate/refused call must leave the full fingerprint unchanged, and the admitted batch must be the real-id-ordered prefix. All permutations (exhaustive <=6 intents, sampled for 8) x retry multiplicities between two passes must give bit-identical committed ticks; ingress ids over a grid must be equal exactly when (kind, bytes, causal-parent set) is equal; a restart must not re-commit.",
        note="Bounded universe (<=4 intents, 2..3 heads, <=2..3 passes, <=1 policy change); real BLAKE3 id order supplied by the harness per salt; restart = restore_witnessed_submission_persistence + restore_causal_runtime_history (WAL bytes are C10); finding F10 (restart re-commit on the raw ingest path) is listed in known_findings.json.",
        design="9.4 C08"),
}

NOT_APPLICABLE = {
    "C12": "Encode/decode bijectivity of byte codecs is a property of pure functions on byte strings, not of state and transitions; a TLA+ model would only re-implement each codec (DESIGN.md section 6).",
    "C13": "Totality of decoders (no panic/abort/stack overflow/non-termination/over-allocation on arbitrary bytes) is memory and resource behaviour of compiled code that a specification cannot observe (DESIGN.md section 6).",
    "C19": "Bit-exact float/fixed-point results across optimisation levels over 2^32 patterns is numeric/compiler behaviour; TLA+ has no floats (DESIGN.md section 6).",
}

PENDING = {}


def main():
    props = [json.loads(l)["id"] for l in open(os.path.join(HERE, "properties.jsonl"))]
    checks = []
    for pid in props:
        if pid not in CHECKS:
            continue
        c = CHECKS[pid]
        checks.append({
            "property_id": pid,
            "quick_cmd": f"./check {pid} --tier quick",
            "thorough_cmd": f"./check {pid} --tier thorough",
            "evidence_file": f"/verif/evidence/{pid}.json",
            "replay_cmd_template": f"./check {pid} --replay {{path}}",
            "engine": "tla-conformance",
            "level_claimed": {"category": c.get("category", "model_checking"), "text": c["text"], "design_ref": c["design"]},
            "level_note": c["note"],
            "technique": c["technique"],
        })
    na = [{"property_id": p, "reason": r} for p, r in NOT_APPLICABLE.items()]
    for pid in props:
        if pid not in CHECKS and pid not in NOT_APPLICABLE:
            na.append({"property_id": pid, "reason": PENDING.get(pid, "check not built yet in this round (planned in DESIGN.md section 3); not claimed until it exists")})
    man = {
        "version": 1,
        "setup_cmd": "./setup.sh",
        "hooks": {
            "guard": "--cfg echo_verif",
            "enable": "rustflags in /verif/harness/.cargo/config.toml: --cfg echo_verif (path dependency on /repo/crates/warp-core); hooks live in crates/warp-core/src/verif.rs, Engine::verif_* in engine_impl.rs and the claim hook in parallel/exec.rs",
            "baseline_off_cmd": "cd /repo && cargo nextest run --workspace --no-fail-fast --tool-config-file pb:/w/lib/nextest.toml --profile pb --test-threads 8 --offline",
            "source_commits": ["7094206", "e1752a2", "a471da9"],
            "add_only": True,
        },
        "engines": [{
            "name": "tla-conformance",
            "path": "/verif/check",
            "serves_properties": [c["property_id"] for c in checks],
            "kind_free_text": "TLA+ specification (spec/*.tla) model-checked with TLC; behaviours exported by TLC are replayed into the real warp-core/echo-cas objects by the Rust harness (harness/), and traces recorded by the harness are validated by TLC trace specs",
        }],
        "checks": checks,
        "not_applicable": na,
        "notes": "See DESIGN.md. known_findings.json lists repaired defects (fix: commits in /repo) and recorded findings.",
    }
    path = os.path.join(HERE, "MANIFEST.json")
    with open(path, "w") as f:
        json.dump(man, f, indent=1)
        f.write("\n")
    try:
        import jsonschema
        jsonschema.validate(man, json.load(open("/root/.vp/MANIFEST.schema.json")))
        print("MANIFEST.json valid;", len(checks), "checks,", len(na), "not_applicable")
    except ImportError:
        print("MANIFEST.json written (jsonschema not importable here)")


if __name__ == "__main__":
    sys.exit(main())
