"""C09 / C08, kernel-port leg - the host-facing `WarpKernel` (crates/warp-wasm/src/warp_kernel.rs): dispatch_intent,
dispatch_control_intent_trusted(Start{UntilIdle{cycle_limit}} / Stop / SetHeadEligibility), scheduler_status, observe,
registry_info, wrapping WorldlineRuntime + SchedulerCoordinator::super_tick + ProvenanceService + Engine.

MC : MC_KernelPort.tla over KernelPort.tla.
     graph cfgs - ALL interleavings of port calls (dispatch of honest / unmatched / panicking / erroring intents and of
       malformed / control / bad import-suffix bytes with unbounded retries, Start with every cycle limit incl. none and
       zero, Stop, SetHeadEligibility of the known and an unknown head, read-only calls), accepted Starts bounded; history
       hidden by VIEW; EVERY transition exported with a witness path and the predicted response + status of every call.
     beh cfgs   - complete behaviours of N calls over {dispatch x 3 intents, Start}: every arrival order, retries anywhere.
     Laws (state invariants and, for transitions into seen states, the action property Laws): TicksAdvanceOnlyByCycles,
     HistoryAppendOnly, AtMostOnce, LedgerIsLog, DuplicateChangesNothing, AcceptedIsNew, RunCommitsPendingSet, RunIdsFresh,
     StartCompletionConsistent, StatusFresh, RefusedChangesNothing, FailedRunCommitsNothing, DormantNeverCommitted,
     ReadChangesNothing.  thorough: three model mutants (a retry of a committed intent is enqueued again; the run stops one
     cycle after the limit; a dormant head is still scheduled) must be REJECTED by TLC.
RP : every exported case is replayed into a REAL WarpKernel (the real source file compiled into the harness, built with
     the table-driven command rule of harness/src/kport.rs); after EVERY call the harness re-reads status / frontier head
     (twice) / every historical commit boundary / registry info and decides the property on the real outcome; deviations
     from the model that keep the property are drift.  Fault-free cases are additionally driven through the linked
     warp-wasm crate's own exported entry points (init_embedded + *_cbor) next to a directly driven kernel: byte-equal.
MR : decided here over all replayed behaviours: equal committed batch sequence => equal real (commit hash, state root) at
     every tick, different sequence => different commit hash.  Arrival order and retries are not part of the key.
"""
import concurrent.futures
import json
import os
import time

from lib import *

RUNS = {
    "quick": ["MC_KernelPort_quick.cfg", "MC_KernelPort_quick_beh.cfg"],
    "thorough": ["MC_KernelPort_thorough.cfg", "MC_KernelPort_thorough_b.cfg", "MC_KernelPort_thorough_beh.cfg", "MC_KernelPort_quick.cfg",
                 "MC_KernelPort_quick_beh.cfg"],
}
MUTANTS = ["MC_KernelPort_mut_dup.cfg", "MC_KernelPort_mut_limit.cfg", "MC_KernelPort_mut_elig.cfg"]
PROCS = 4
P = "kernel:"


def split_run(binp, sub, tag, cases, timeout=7200):
    n = max(1, min(PROCS, len(cases) // 500 or 1))
    size = (len(cases) + n - 1) // n
    chunks = [c for c in (cases[k * size:(k + 1) * size] for k in range(n)) if c]

    def one(k):
        cin = write_ndjson(os.path.join(WORK, f"{tag}.{k}.cases"), chunks[k])
        cout = os.path.join(WORK, f"{tag}.{k}.results")
        harness(binp, [sub, cin, cout], timeout=timeout)
        res = read_ndjson(cout)
        if len(res) != len(chunks[k]):
            raise ToolError(f"{sub}: harness result count mismatch")
        return res

    with concurrent.futures.ThreadPoolExecutor(max_workers=len(chunks)) as ex:
        parts = list(ex.map(one, range(len(chunks))))
    return [r for part in parts for r in part]


def canon(o):
    return json.dumps(o, sort_keys=True, separators=(",", ":"))


def call_kind(call):
    op, r = call["op"], call["r"]
    k = op["a"]
    if k == "dispatch":
        return "dispatch/" + ("accepted" if r["accepted"] else "duplicate" if r["ok"] else r["err"])
    if k == "start":
        if r["ok"]:
            return "start/" + call["s"]["st"]["done"]
        return "start/" + r["err"] + ("/zero_limit" if op["some"] and op["n"] == 0 and r["err"] == "INVALID_CONTROL" else
                                      "/already_active" if r["err"] == "INVALID_CONTROL" else "")
    if k == "elig":
        return "elig/" + (op["e"] if r["ok"] else r["err"])
    if k == "stop":
        return "stop/" + call["s"]["st"]["done"]
    return k


NEED_KINDS = ["dispatch/accepted", "dispatch/duplicate", "dispatch/INVALID_INTENT", "dispatch/FORBIDDEN_CONTROL_INTENT",
              "start/quiesced", "start/blocked_only", "start/cycle_limit_reached", "start/ENGINE_ERROR", "start/PANIC",
              "start/DIVERGES", "start/INVALID_CONTROL/zero_limit", "start/INVALID_CONTROL/already_active",
              "elig/dormant", "elig/admitted", "elig/INVALID_CONTROL", "stop/stopped", "read"]


def run_leg(ck, binp, tier, replay=None):
    spec_mutants = {}
    t_leg = time.time()
    only = os.environ.get("VERIF_KPORT_ONLY")                # debugging aid: run a single cfg of the tier

    def mc(cfg):
        return cfg, tlc("MC_KernelPort", cfg, workers=8 if tier == "thorough" else 4, timeout=3600, tags=("CASE",),
                        out_name=f"kport_{cfg.replace('.cfg', '')}", heap="10g")

    def exported(cfg, res):
        ck.add_tlc(res)
        if res.violation:
            ck.violation(f"{P}spec:{cfg}:{res.violation}", "TLC invariant / action property violated on the kernel-port model:\n" + res.error_text[:3000],
                         {"leg": "kernel_spec", "cfg": cfg, "invariant": res.violation, "trace": res.error_text[:20000]})
            return None
        if not res.lines:
            raise ToolError(f"{cfg}: nothing exported")
        cases = [c for _, c in res.lines]
        res.lines = []
        return cases

    def all_runs():
        """(cfg, cases) one at a time: the thorough exports are several hundred MB each"""
        if replay:
            obj = json.load(open(replay))["case"]
            if obj.get("leg") == "kernel" and obj.get("cases"):
                yield obj.get("cfg", "replay"), obj["cases"]
            return
        cfgs = [c for c in RUNS[tier] if not only or only in c]
        if tier == "quick":
            with concurrent.futures.ThreadPoolExecutor(max_workers=2) as ex:
                results = list(ex.map(mc, cfgs))
        else:
            results = (mc(c) for c in cfgs)
        for cfg, res in results:
            cases = exported(cfg, res)
            if cases is not None:
                yield cfg, cases

    if replay and json.load(open(replay))["case"].get("leg") != "kernel":
        return
    if not replay and tier == "thorough" and not only:
        for cfg in MUTANTS:
            res = tlc("MC_KernelPort", cfg, workers=4, timeout=900, tags=("CASE",), out_name=f"kport_{cfg.replace('.cfg', '')}")
            spec_mutants[cfg] = res.violation
            if not res.violation:
                raise ToolError(f"the model mutant {cfg} satisfies every law of KernelPort.tla: the properties are vacuous")

    total = calls = nontrivial = drift = surface_cases = surface_calls = 0
    stats, kinds, seen_keys = {}, {}, {}
    statuses = set()
    hangs = []
    fwd, bwd, members = {}, {}, {}          # MR: batch-sequence key -> (commit, root) ; commit -> key
    orders = {}                              # committed batch sequence -> distinct dispatch sequences that produced it
    for cfg, cases in all_runs():
        tag = f"kport_{cfg.replace('.cfg', '')}"
        results = split_run(binp, "kport", tag, cases)
        for c, r in zip(cases, results):
            total += 1
            calls += len(c["calls"])
            slim = {"leg": "kernel", "cfg": cfg, "cases": [c]}
            if r["verdict"] == "tool_error":
                raise ToolError(f"kport harness: {r.get('detail')}")
            if r["verdict"] in ("hang", "skipped"):
                # a port call that never returned although the model says it does: not a C08/C09 breach by itself;
                # reported as tool trouble below unless the same run also found real breaches
                hangs.append({"cfg": cfg, "verdict": r["verdict"], "call": r.get("step"), "calls": [x["op"] for x in c["calls"]]})
                continue
            if r["verdict"] == "violation":
                key = f"{P}{r['kind']}"
                seen_keys[key] = seen_keys.get(key, 0) + 1
                if seen_keys[key] <= 2:
                    path = [x["op"] for x in c["calls"]]
                    ck.violation(key, f"call {r.get('step')} {json.dumps(r.get('op'))} of {json.dumps(path)[:1200]}: {r.get('detail')}"[:3000], slim)
                continue
            if r.get("drift"):
                drift += 1
                if len(ck.notes) < 6:
                    ck.notes.append({"kernel_model_drift": r["drift"][:2], "calls": [x["op"] for x in c["calls"]]})
            for k, v in r["stats"].items():
                stats[k] = stats.get(k, 0) + v
            statuses.update(r["statuses"])
            for call in c["calls"]:
                k = call_kind(call)
                kinds[k] = kinds.get(k, 0) + 1
            if r["stats"]["duplicates"] or r["stats"]["commits"] >= 2 or r["stats"]["engine_errors"] or r["stats"]["panics"]:
                nontrivial += 1
            # ---- MR keys: the committed batch sequence (sets), tick by tick
            hist = c["hist"]
            if len(hist) != len(r["chain"]):
                if not r.get("drift"):
                    raise ToolError(f"kport: {len(r['chain'])} real commits for {len(hist)} model commits without a reported deviation")
                continue
            wit = {"cfg": cfg, "calls": [x["op"] for x in c["calls"]]}
            prefix = []
            for h, real in zip(hist, r["chain"]):
                prefix.append(sorted(h["b"]))
                key = canon(prefix)
                val = real["commit"] + "/" + real["root"]
                members[key] = members.get(key, 0) + 1
                fwd.setdefault(key, {}).setdefault(val, wit)
                bwd.setdefault(real["commit"], {}).setdefault(key, wit)
            if hist:
                seqkey = canon([sorted(h["b"]) for h in hist])
                orders.setdefault(seqkey, set()).add(canon([x["op"] for x in c["calls"] if x["op"]["a"] in ("dispatch", "start")]))
        # ---- the exported entry points of the linked warp-wasm crate (default engine: no command rule, so only
        #      cases without the fault-injecting intents; "ok" intents then commit like unmatched ones)
        sc = [c for c in cases if not any(x["op"].get("x") in ("p1", "b1") for x in c["calls"])]
        if sc:
            sres = split_run(binp, "kport-surface", tag + "_surface", sc)
            for c, r in zip(sc, sres):
                if r["verdict"] == "tool_error":
                    raise ToolError(f"kport-surface harness: {r.get('detail')}")
                if r["verdict"] in ("hang", "skipped"):
                    hangs.append({"cfg": cfg, "verdict": r["verdict"], "surface": True, "call": r.get("step"), "calls": [x["op"] for x in c["calls"]]})
                    continue
                if r["verdict"] == "violation":
                    key = f"{P}{r['kind']}"
                    seen_keys[key] = seen_keys.get(key, 0) + 1
                    if seen_keys[key] <= 2:
                        ck.violation(key, f"call {r.get('step')} {json.dumps(r.get('op'))}: {r.get('detail')}"[:3000], {"leg": "kernel", "cfg": cfg, "cases": [c]})
                    continue
                surface_cases += 1
                surface_calls += r["compared"]
                if r.get("drift"):
                    drift += 1
                    if len(ck.notes) < 6:
                        ck.notes.append({"kernel_surface_model_drift": r["drift"][:2], "calls": [x["op"] for x in c["calls"]]})
        if cases:
            mid = cases[len(cases) // 2]
            ck.sample({"kernel_cfg": cfg, "calls": [x["op"] for x in mid["calls"]], "predicted_last": mid["calls"][-1]["r"],
                       "committed_batches": [sorted(h["b"]) for h in mid["hist"]]}, limit=8)
        del cases, results

    # ---- MR: committed history is a function of the committed batch sequence only
    for key, vals in fwd.items():
        if len(vals) > 1:
            ws = list(vals.items())[:2]
            ck.violation(f"{P}mr:history_depends_on_arrival_or_retries",
                         f"same committed batch sequence {key[:300]}, different commit/root: {ws[0][0][:16]} via {json.dumps(ws[0][1]['calls'])[:700]} "
                         f"vs {ws[1][0][:16]} via {json.dumps(ws[1][1]['calls'])[:700]}",
                         {"leg": "kernel", "cfg": ws[0][1]["cfg"], "relation": "history", "key": key, "witnesses": [w for _, w in ws], "cases": []})
    for commit, keys in bwd.items():
        if len(keys) > 1:
            ws = list(keys.items())[:2]
            ck.violation(f"{P}mr:commit_hash_collision", f"different committed batch sequences share commit hash {commit[:16]}: {ws[0][0][:300]} vs {ws[1][0][:300]}",
                         {"leg": "kernel", "cfg": ws[0][1]["cfg"], "relation": "history", "hash": commit, "witnesses": [w for _, w in ws], "cases": []})
    max_orders = max((len(v) for v in orders.values()), default=0)

    if hangs:
        first = [h for h in hangs if h["verdict"] == "hang"][:2]
        if not seen_keys:
            raise ToolError(f"kport: {len(hangs)} case(s) not completed because a port call did not return: {json.dumps(first)[:1500]}")
        ck.notes.append({"kernel_port_calls_that_did_not_return": len(hangs), "first": first})
    # ---- vacuity guards (clean runs only)
    if not replay and not seen_keys and not os.environ.get("VERIF_KPORT_ONLY"):
        if total == 0 or stats.get("commits", 0) == 0 or stats.get("duplicates", 0) == 0 or stats.get("duplicates_after_commit", 0) == 0:
            raise ToolError(f"kport: vacuous replay: {total} cases, stats {stats}")
        missing = [k for k in NEED_KINDS if not kinds.get(k)]
        if missing:
            raise ToolError(f"kport: vacuous replay, no call of kind {missing}: {kinds}")
        for need in ("refused", "engine_errors", "panics", "already_active", "stopped_while_running", "diverging_probes", "reads"):
            if not stats.get(need):
                raise ToolError(f"kport: vacuous replay, real kernel never showed {need}: {stats}")
        if max_orders < 6 or surface_calls == 0:
            raise ToolError(f"kport: only {max_orders} dispatch orders / retry placements reached one committed history; {surface_calls} surface calls")

    ck.cov["traces_validated_against_impl"] += total
    ck.cov["evaluations"] += calls
    ck.cov["distinct_nontrivial"] += nontrivial
    ck.cov["rule"] += ("; kernel-port leg: %d cases (graph cfgs: one per transition of the MC_KernelPort state graph replayed from a witness path; beh cfgs: one per "
                       "complete behaviour; every call checked), cfgs %s; non-trivial = the behaviour contains a retry answered duplicate, >= 2 commits, an engine "
                       "error or a panic" % (total, RUNS.get(tier, [])))
    log(f"[kport] kernel-port leg: {total} cases / {calls} calls replayed, {time.time() - t_leg:.1f}s")
    ck.cov["kernel"] = {"behaviours": total, "calls": calls, "real_stats": stats, "cycles": stats.get("cycles", 0),
                        "committing_cycles": stats.get("commits", 0), "duplicates": stats.get("duplicates", 0),
                        "refused_controls_and_dispatches": stats.get("refused", 0), "distinct_statuses": len(statuses),
                        "call_kinds": kinds, "model_drift_cases": drift, "mr_history_keys": len(fwd),
                        "mr_keys_reached_by_several_behaviours": sum(1 for n in members.values() if n > 1),
                        "max_dispatch_orders_per_committed_history": max_orders,
                        "surface_cases": surface_cases, "surface_calls_byte_equal": surface_calls,
                        "model_mutants_rejected_by": spec_mutants}
    ck.assumptions += [
        "kernel port: the topology WarpKernel::with_engine builds (one worldline, one AcceptAll default head); <=4 intents quick / 5 thorough (honest, unmatched, "
        "panicking executor, inapplicable op); accepted Starts bounded (2 quick / 3 thorough) in the graph cfgs, retries unbounded; at most one faulty intent pending",
        "kernel port: WarpKernel is a private module of warp-wasm; the REAL source file crates/warp-wasm/src/warp_kernel.rs is compiled into the harness (build.rs, "
        "path derived from the warp-wasm path dependency) and driven through its KernelPort / TrustedKernelControlPort methods; the crate's own exported entry "
        "points are cross-checked byte for byte on the fault-free cases; the scheduler pass itself is bound by the C09 main leg",
        "kernel port: an unbounded Start the model marks as non-terminating (quarantined head with pending work) is probed with a 25-cycle bound instead of being issued",
    ]
