SPECIFICATION Spec
CONSTANTS
  Slots <- TrSlots
  U0 <- TrU0
  None = None
INVARIANT Inv_TraceChain
PROPERTIES TraceAppendOnly
POSTCONDITION Accepted
CHECK_DEADLOCK FALSE
