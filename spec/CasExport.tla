----------------------------- MODULE CasExport -----------------------------
(***************************************************************************)
(* Content-addressed retention (property C20), part 2: the causal-history  *)
(* export profiles of the snapshot store                                   *)
(* (crates/warp-core/src/wsc/store.rs).                                    *)
(*                                                                         *)
(* A source is a WAL root with one sealed segment (blob "seg") and a       *)
(* record set: accepted submissions + receipts + correlations (one triple  *)
(* per element of subs) and retained materials + reading references (one   *)
(* pair per element of mats, material m naming the payload blob m).        *)
(*   self : wsc_self_contained_wal_export  - segment bytes and retained    *)
(*          payload bytes are EMBEDDED in the export                       *)
(*   cas  : wsc_cas_addressed_wal_export   - the export carries content    *)
(*          hashes + semantic coordinate digests; the bytes live in a CAS  *)
(*   ref  : wsc_ref_only_wal_export        - no bytes; every segment is an *)
(*          explicit external dependency                                   *)
(* validate_wsc_*_wal_export re-imports.  Material referenced by an export *)
(* can be withheld or corrupted before import.  The law: an import either  *)
(* returns exactly the source records (and material) or a typed error.     *)
(* Hashes are modelled as identity on blob names: a corrupted blob is a    *)
(* value that hashes to nothing that is referenced.                        *)
(***************************************************************************)
EXTENDS Naturals, Sequences, FiniteSets, TLC

CONSTANTS Subs,        \* optional submission labels (a base submission is always present)
          Mats,        \* optional retained-material labels
          MaxTamper    \* at most this many tamper steps before the import

Profiles == {"self", "cas", "ref"}

VARIABLES subs, mats, profile,   \* the source and the profile chosen (fixed per behaviour)
          phase,                 \* "src" -> "exported" -> "imported"
          mat,                   \* [blob -> "ok" | "absent" | "corrupt"]: embedded material (self) / CAS content (cas)
          tampers,               \* sequence of tamper steps applied
          result                 \* outcome of the import
xvars == <<subs, mats, profile, phase, mat, tampers, result>>

BlobNames == {"seg"} \cup Mats
\* what the export of this profile references byte-wise
Refs == IF profile = "ref" THEN {} ELSE {"seg"} \cup mats

XInit ==
  /\ subs \in SUBSET Subs /\ mats \in SUBSET Mats /\ profile \in Profiles
  /\ phase = "src"
  /\ mat = [x \in BlobNames |-> "absent"]
  /\ tampers = <<>>
  /\ result = "-"

\* wsc_<profile>_wal_export: every referenced blob is supplied intact (embedded, or put into the CAS)
Export ==
  /\ phase = "src"
  /\ phase' = "exported"
  /\ mat' = [x \in BlobNames |-> IF x \in Refs THEN "ok" ELSE "absent"]
  /\ UNCHANGED <<subs, mats, profile, tampers, result>>

\* the blob is not supplied: exporter called without it (self) / CAS does not hold it (cas)
Withhold(x) ==
  /\ phase = "exported" /\ x \in Refs /\ mat[x] # "absent" /\ Len(tampers) < MaxTamper
  /\ mat' = [mat EXCEPT ![x] = "absent"]
  /\ tampers' = Append(tampers, [k |-> "withhold", x |-> x])
  /\ UNCHANGED <<subs, mats, profile, phase, result>>

\* the blob's bytes are altered: embedded bytes changed (self) / CAS answers other bytes for the hash (cas)
Corrupt(x) ==
  /\ phase = "exported" /\ x \in Refs /\ mat[x] = "ok" /\ Len(tampers) < MaxTamper
  /\ mat' = [mat EXCEPT ![x] = "corrupt"]
  /\ tampers' = Append(tampers, [k |-> "corrupt", x |-> x])
  /\ UNCHANGED <<subs, mats, profile, phase, result>>

\* validate_wsc_<profile>_wal_export (or the exporter itself, which refuses to build an export
\* from missing / mismatching material): Ok with the source records iff every referenced blob is intact
Import ==
  /\ phase = "exported"
  /\ phase' = "imported"
  /\ result' = IF \A x \in Refs : mat[x] = "ok" THEN "ok" ELSE "err"
  /\ UNCHANGED <<subs, mats, profile, mat, tampers>>

XNext == Export \/ Import \/ \E x \in BlobNames : Withhold(x) \/ Corrupt(x)

\* missing or corrupt material is answered with an error; intact material re-imports
Inv_ImportLaw == phase = "imported" =>
                   /\ (result = "ok" <=> \A x \in Refs : mat[x] = "ok")
                   /\ (tampers # <<>> => result = "err")
                   /\ (profile = "ref" => result = "ok")
=============================================================================
