------------------------------ MODULE MC_C05 ------------------------------
(***************************************************************************)
(* C05 model.  Two modes (constant Mode):                                  *)
(*                                                                         *)
(* "chain"  : two worldlines with two writer heads each and one fork;      *)
(*            every interleaving of coordinator appends and the fork up to *)
(*            MaxEntries entries per worldline.  Properties: append-only   *)
(*            (action property), gap-free ticks, parents = previous tip,   *)
(*            commit id = H(parents, root, patch digest, policy), replay   *)
(*            of every prefix verifies.                                    *)
(*                                                                         *)
(* "tamper" : a fixed store (worldline a with 3 entries, its fork sibling  *)
(*            f diverging after tick 0, an independent worldline b); every *)
(*            (position, field, variant) single-field alteration of a's    *)
(*            retained entries plus swap / duplicate / truncate /          *)
(*            transplant, and tampered checkpoints.  The store is rebuilt  *)
(*            from the tampered sequence (append validation) and every     *)
(*            tick is re-verified (replay); the outcome per tick is        *)
(*            err:<variant> | same | diff_diag | diff_core.  Invariant:    *)
(*            for the fields the commit id is documented to bind, the      *)
(*            outcome is never diff_*.  Every case is exported with the    *)
(*            predicted outcome and replayed on real entries               *)
(*            (harness/src/c05.rs), where the property is decided on the   *)
(*            real outcome for ALL fields.                                 *)
(***************************************************************************)
EXTENDS Provenance, Json

CONSTANTS Mode, MaxEntries, Export

VARIABLES tc,      \* tamper mode: the case; chain mode: number of forks done
          log      \* unused (kept empty: behaviours that reach the same store are one state)
vars == <<entries, ckpts, cur, last, tc, log>>

MC_Slots == {"n1", "n2", "n3"}
MC_U0 == [k \in MC_Slots |-> IF k = "n1" THEN "p0" ELSE "none"]
W(a, b, c) == [k \in MC_Slots |-> IF k = "n1" THEN a ELSE IF k = "n2" THEN b ELSE c]

\* ---- the fixed store of the tamper mode --------------------------------------------------------
A == "a"   F == "f"   B == "b"
OpsA == << W("p1", Keep, Keep), W(Keep, "p0", "p2"), W("p2", "none", Keep) >>
OpsF == << W("p1", Keep, Keep), W("p0", "p1", Keep), W(Keep, Keep, "p1") >>     \* OpsF[1] is the copied prefix
OpsB == << W(Keep, "p2", Keep), W("p1", Keep, "p0") >>
HeadOf(i) == IF i % 2 = 0 THEN "h0" ELSE "h1"
Outs(w, i) == IF i = 0 THEN <<>> ELSE <<w, i>>

RECURSIVE Chain(_, _, _, _)
\* the coordinator's entries for worldline w applying ops[k..] on top of `prefix`
Chain(w, prefix, ops, k) ==
  IF k > Len(ops) THEN prefix
  ELSE LET t == Len(prefix)
           tip == IF t = 0 THEN None ELSE Ref(prefix[t].w, prefix[t].tick, prefix[t].cid)
           st == AdvanceSeq(prefix, MatU0, 0, t).mat.st
       IN Chain(w, Append(prefix, CoordEntry(w, HeadOf(t), t, t + 1, tip, st, ops[k], 0, Outs(w, t))), ops, k + 1)

EA == Chain(A, <<>>, OpsA, 1)
EF == Chain(F, <<RewriteForFork(EA[1], A, F)>>, OpsF, 2)
EB == Chain(B, <<>>, OpsB, 1)
Others == [x \in {F, B} |-> IF x = F THEN EF ELSE EB]
NoCk == [x \in {A, F, B} |-> {}]
OrigAt(t) == AdvanceSeq(EA, MatU0, 0, t).mat

\* ---- tamper catalogue ------------------------------------------------------------------------------
AlterVariants ==
  { <<"w", "other">>, <<"w", "unregistered">>, <<"tick", "plus1">>, <<"tick", "minus1">>, <<"gtick", "alter">>,
    <<"head", "none">>, <<"head", "otherhead">>, <<"head", "otherworldline">>,
    <<"parents", "drop">>, <<"parents", "cid_flip">>, <<"parents", "grandparent">>, <<"parents", "tick_alter">>,
    <<"parents", "sibling_w">>, <<"parents", "add_second">>,
    <<"kind", "alter">>, <<"root", "flip">>, <<"pd", "flip">>, <<"cid", "flip">>,
    <<"patch", "none">>, <<"patch.gtick", "alter">>, <<"patch.policy", "alter">>, <<"patch.pack", "alter">>,
    <<"patch.plan", "alter">>, <<"patch.decision", "alter">>, <<"patch.rewrites", "alter">>, <<"patch.warp", "alter">>,
    <<"patch.ops", "alter">>, <<"patch.ops", "drop">>, <<"patch.ops", "add">>, <<"patch.slots", "alter">>,
    <<"patch.pdigest", "flip">>,
    \* the field AND every digest derived from it recomputed consistently (patch digest in both places, state
    \* root): only the commit id can then tell -- this is what "the commit id binds ..." means
    <<"patch.slots", "consistent">>, <<"patch.policy", "consistent">>, <<"patch.ops", "consistent">>,
    <<"receipt", "none">>, <<"receipt.tx", "alter">>, <<"receipt.digest", "alter">>,
    <<"outputs", "alter">>, <<"outputs", "drop">>, <<"outputs", "add">>, <<"atomw", "add">> }

\* applicability: some variants need a parent / a grandparent / outputs to exist
Applicable(e, fv) ==
  CASE fv = <<"tick", "minus1">> -> e.tick > 0
    [] fv[1] = "parents" /\ fv[2] \in {"drop", "cid_flip", "tick_alter", "sibling_w"} -> Len(e.parents) > 0
    [] fv = <<"parents", "grandparent">> -> e.tick >= 2
    [] fv = <<"parents", "add_second">> -> e.tick >= 2
    [] fv = <<"parents", "sibling_w">> -> e.tick = 1      \* only tick 0 exists on the sibling with the same commit id
    [] fv[1] = "outputs" /\ fv[2] \in {"alter", "drop"} -> e.outputs # <<>>
    [] fv = <<"patch.ops", "drop">> -> \E k \in DOMAIN e.patch.ops : e.patch.ops[k] # Keep
    [] OTHER -> TRUE

SlotRank(k) == CASE k = "n1" -> 1 [] k = "n2" -> 2 [] OTHER -> 3
MinSlot(S) == CHOOSE k \in S : \A j \in S : SlotRank(k) <= SlotRank(j)
FirstWritten(ops) == MinSlot({k \in DOMAIN ops : ops[k] # Keep})
FirstKept(ops) == IF \E k \in DOMAIN ops : ops[k] = Keep THEN MinSlot({k \in DOMAIN ops : ops[k] = Keep}) ELSE "n1"

Alter(e, fv) ==
  LET f == fv[1]  v == fv[2] IN
  CASE f = "w" -> [e EXCEPT !.w = IF v = "other" THEN B ELSE "zz"]
    [] f = "tick" -> [e EXCEPT !.tick = IF v = "plus1" THEN @ + 1 ELSE @ - 1]
    [] f = "gtick" -> [e EXCEPT !.gtick = @ + 7]
    [] f = "head" -> [e EXCEPT !.head = IF v = "none" THEN None ELSE IF v = "otherhead" THEN [@ EXCEPT !.h = "h9"] ELSE [@ EXCEPT !.w = B]]
    [] f = "parents" ->
         [e EXCEPT !.parents =
            CASE v = "drop" -> <<>>
              [] v = "cid_flip" -> <<[@[1] EXCEPT !.cid = Flip(@)]>>
              [] v = "grandparent" -> <<Ref(A, e.tick - 2, EA[e.tick - 1].cid)>>
              [] v = "tick_alter" -> <<[@[1] EXCEPT !.tick = @ + 1]>>
              [] v = "sibling_w" -> <<[@[1] EXCEPT !.w = F]>>
              [] v = "add_second" -> <<Ref(A, e.tick - 2, EA[e.tick - 1].cid)>> \o @]
    [] f = "kind" -> [e EXCEPT !.kind = "ConflictArtifact"]
    [] f = "root" -> [e EXCEPT !.root = Flip(@)]
    [] f = "pd" -> [e EXCEPT !.pd = Flip(@)]
    [] f = "cid" -> [e EXCEPT !.cid = Flip(@)]
    [] f = "patch" -> [e EXCEPT !.patch = None]
    [] f = "patch.gtick" -> [e EXCEPT !.patch.gtick = @ + 7]
    [] f = "patch.policy" /\ v = "consistent" ->
         LET d == PatchDigest(e.patch.ops, e.patch.slots, e.patch.policy + 1, e.patch.pack)
         IN [e EXCEPT !.patch.policy = @ + 1, !.patch.pdigest = d, !.pd = d]
    [] f = "patch.slots" /\ v = "consistent" ->
         LET s2 == e.patch.slots \cup {"extra"}
             d == PatchDigest(e.patch.ops, s2, e.patch.policy, e.patch.pack)
         IN [e EXCEPT !.patch.slots = s2, !.patch.pdigest = d, !.pd = d]
    [] f = "patch.ops" /\ v = "consistent" ->
         LET k == FirstWritten(e.patch.ops)
             ops2 == [e.patch.ops EXCEPT ![k] = IF @ = "p1" THEN "p2" ELSE "p1"]
             d == PatchDigest(ops2, e.patch.slots, e.patch.policy, e.patch.pack)
         IN [e EXCEPT !.patch.ops = ops2, !.patch.pdigest = d, !.pd = d, !.root = RootOf(ApplyOps(OrigAt(e.tick).st, ops2))]
    [] f = "patch.policy" -> [e EXCEPT !.patch.policy = @ + 1]
    [] f = "patch.pack" -> [e EXCEPT !.patch.pack = Flip(@)]
    [] f = "patch.plan" -> [e EXCEPT !.patch.plan = Flip(@)]
    [] f = "patch.decision" -> [e EXCEPT !.patch.decision = Flip(@)]
    [] f = "patch.rewrites" -> [e EXCEPT !.patch.rewrites = Flip(@)]
    [] f = "patch.warp" -> [e EXCEPT !.patch.warp = "w1"]
    [] f = "patch.ops" ->
         [e EXCEPT !.patch.ops =
            CASE v = "alter" -> LET k == FirstWritten(@) IN [@ EXCEPT ![k] = IF @ = "p1" THEN "p2" ELSE "p1"]
              [] v = "drop" -> [@ EXCEPT ![FirstWritten(@)] = Keep]
              [] v = "add" -> LET k == FirstKept(@) IN [@ EXCEPT ![k] = IF @ = Keep THEN "p2" ELSE IF @ = "p1" THEN "p0" ELSE "p1"]]
    [] f = "patch.slots" -> [e EXCEPT !.patch.slots = @ \cup {"extra"}]
    [] f = "patch.pdigest" -> [e EXCEPT !.patch.pdigest = Flip(@)]
    [] f = "receipt" -> [e EXCEPT !.receipt = None]
    [] f = "receipt.tx" -> [e EXCEPT !.receipt.tx = @ + 1]
    [] f = "receipt.digest" -> [e EXCEPT !.receipt.digest = Flip(@)]
    [] f = "outputs" -> [e EXCEPT !.outputs = IF v = "alter" THEN Flip(@) ELSE IF v = "drop" THEN <<>> ELSE Append(@, "extra")]
    [] f = "atomw" -> [e EXCEPT !.atomw = <<"write">>]

ReplaceAt(seq, i, x) == [j \in 1..Len(seq) |-> IF j = i THEN x ELSE seq[j]]
RemoveAt(seq, i) == [j \in 1..(Len(seq) - 1) |-> IF j < i THEN seq[j] ELSE seq[j + 1]]
InsertAt(seq, i, x) == [j \in 1..(Len(seq) + 1) |-> IF j < i THEN seq[j] ELSE IF j = i THEN x ELSE seq[j - 1]]

\* pos is 1-based; the entry at pos has worldline_tick pos - 1
TamperedSeq(c) ==
  CASE c.kind = "none" -> EA
    [] c.kind = "alter" -> ReplaceAt(EA, c.pos, Alter(EA[c.pos], <<c.field, c.variant>>))
    [] c.kind = "swap" -> [j \in 1..Len(EA) |-> IF j = c.pos THEN EA[c.pos + 1] ELSE IF j = c.pos + 1 THEN EA[c.pos] ELSE EA[j]]
    \* swap, then the attacker also renumbers the ticks
    [] c.kind = "swap_renumbered" ->
         [j \in 1..Len(EA) |-> IF j = c.pos THEN [EA[c.pos + 1] EXCEPT !.tick = c.pos - 1]
                               ELSE IF j = c.pos + 1 THEN [EA[c.pos] EXCEPT !.tick = c.pos] ELSE EA[j]]
    [] c.kind = "duplicate" -> InsertAt(EA, c.pos + 1, EA[c.pos])
    [] c.kind = "truncate" -> SubSeq(EA, 1, c.pos - 1)                       \* drop the tail from pos
    [] c.kind = "drop_middle" -> RemoveAt(EA, c.pos)
    \* transplant: the entry at pos is replaced by the same-position entry of another worldline, verbatim
    [] c.kind = "transplant" -> ReplaceAt(EA, c.pos, IF c.variant = "sibling" THEN EF[c.pos] ELSE EB[c.pos])
    \* ... with only the entry's worldline id rewritten so that it claims to belong to a
    [] c.kind = "transplant_claimed" -> ReplaceAt(EA, c.pos, [(IF c.variant = "sibling" THEN EF[c.pos] ELSE EB[c.pos]) EXCEPT !.w = A])
    \* ... with every id (entry, head key, parent refs) consistently rewritten: this is what fork() itself
    \* does and yields a valid alternative branch; no unkeyed hash chain can tell it from a's own future
    [] c.kind = "transplant_rewritten" -> ReplaceAt(EA, c.pos, RewriteForFork(IF c.variant = "sibling" THEN EF[c.pos] ELSE EB[c.pos], IF c.variant = "sibling" THEN F ELSE B, A))

EntryCases ==
  {[kind |-> "none", pos |-> 0, field |-> "", variant |-> ""]}
  \cup {[kind |-> "alter", pos |-> p, field |-> fv[1], variant |-> fv[2]] : p \in 1..Len(EA), fv \in AlterVariants}
  \cup {[kind |-> k, pos |-> p, field |-> "", variant |-> ""] : k \in {"swap", "swap_renumbered"}, p \in 1..(Len(EA) - 1)}
  \cup {[kind |-> k, pos |-> p, field |-> "", variant |-> ""] : k \in {"duplicate", "truncate"}, p \in 1..Len(EA)}
  \cup {[kind |-> "drop_middle", pos |-> p, field |-> "", variant |-> ""] : p \in 1..(Len(EA) - 1)}
  \cup {[kind |-> k, pos |-> p, field |-> "", variant |-> v] : k \in {"transplant", "transplant_claimed", "transplant_rewritten"},
                                                                p \in 1..2, v \in {"sibling", "independent"}}
CaseOk(c) == c.kind # "alter" \/ Applicable(EA[c.pos], <<c.field, c.variant>>)

\* ---- checkpoint tampering: a checkpoint claiming tick c.pos is offered to the intact store ----------
\* The WorldlineState inside is not freely editable from outside the crate; tampered states are states
\* materialized elsewhere: at another tick, on the sibling, or by a twin store whose entries differ in a field
\* that replay accepts (outputs, diagnostic digests).
TwinA(fv) == [j \in 1..Len(EA) |-> Alter(EA[j], fv)]
CkptCases == {[kind |-> "ckpt", pos |-> p, field |-> "", variant |-> v] :
                 p \in 1..Len(EA), v \in {"honest", "hash_flip", "tick_plus1", "tick_minus1", "state_sibling", "state_lm_twin", "state_plan_twin",
                                   \* served by a store that never ran add_checkpoint (foreign ProvenanceStore): honest (tick, state hash),
                                   \* materialized state swapped for the sibling's / the previous tick's
                                   "served_state_sibling", "served_state_prev_tick"}}
CkptOf(c) ==
  LET t == c.pos
      honest == [tick |-> t, root |-> RootOf(OrigAt(t).st), mat |-> OrigAt(t)]
  IN CASE c.variant = "honest" -> honest
       [] c.variant = "hash_flip" -> [honest EXCEPT !.root = Flip(@)]
       [] c.variant = "tick_plus1" -> [honest EXCEPT !.tick = t + 1]          \* claims the next tick with this state
       [] c.variant = "tick_minus1" -> [honest EXCEPT !.tick = t - 1]
       [] c.variant = "state_sibling" -> LET m == AdvanceSeq(EF, MatU0, 0, t).mat IN [tick |-> t, root |-> RootOf(m.st), mat |-> m]
       [] c.variant = "served_state_sibling" -> [honest EXCEPT !.mat = AdvanceSeq(EF, MatU0, 0, t).mat]
       [] c.variant = "served_state_prev_tick" -> [honest EXCEPT !.mat = OrigAt(t - 1)]
       [] c.variant = "state_lm_twin" -> LET m == AdvanceSeq(TwinA(<<"outputs", "add">>), MatU0, 0, t).mat IN [tick |-> t, root |-> RootOf(m.st), mat |-> m]
       [] c.variant = "state_plan_twin" -> LET m == AdvanceSeq(TwinA(<<"patch.plan", "alter">>), MatU0, 0, t).mat IN [tick |-> t, root |-> RootOf(m.st), mat |-> m]

\* validate_checkpoint_for_history over an explicit sequence (the metadata hash is checked against the state first)
CkptVerdictIn(es, ck) ==
  LET t == ck.tick  m == ck.mat
      expRoot == IF t = 0 THEN RootOf(U0) ELSE es[t].root
  IN IF t > Len(es) THEN "HistoryUnavailable"
     ELSE IF RootOf(m.st) # ck.root THEN "CheckpointStateRootMismatch"
     ELSE IF RootOf(m.st) # expRoot THEN "CheckpointStateRootMismatch"
     ELSE IF Len(m.hist) # t \/ m.txc # t THEN "CheckpointReplayMetadataMismatch"
     ELSE IF t = 0 /\ m.lm # <<>> THEN "CheckpointReplayMetadataMismatch"
     ELSE IF t > 0 /\ (\E i \in 1..t : es[i].patch = None \/ ArtifactsError(es[i]) # "ok" \/ m.hist[i] # SnapshotOf(es[i])) THEN "CheckpointReplayMetadataMismatch"
     ELSE IF t > 0 /\ m.lm # es[t].outputs THEN "CheckpointReplayMetadataMismatch"
     ELSE "ok"

\* ---- prediction --------------------------------------------------------------------------------------
Prediction(c) ==
  IF c.kind = "ckpt"
  THEN LET ck == CkptOf(c)
           served == c.variant \in {"served_state_sibling", "served_state_prev_tick"}
           v == IF served THEN "served" ELSE CkptVerdictIn(EA, ck)
           cks == [NoCk EXCEPT ![A] = IF v \in {"ok", "served"} THEN {ck} ELSE {}]
           es == [x \in {A, F, B} |-> IF x = A THEN EA ELSE Others[x]]
       IN [rebuild |-> v, at |-> ck.tick,
           ticks |-> [t \in 1..(Len(EA) + 1) |-> Classify(ReplayIn(es, cks, A, t - 1), OrigAt(t - 1))]]
  ELSE LET seq == TamperedSeq(c)
           rb == Rebuild(Others, A, seq)
           n == Len(rb.es[A])
           \* a checkpoint of the ORIGINAL state right after the tampered entry, offered to the rebuilt store
           ct == IF c.pos = 0 THEN 1 ELSE c.pos
           ck == [tick |-> ct, root |-> RootOf(OrigAt(ct).st), mat |-> OrigAt(ct)]
           ckv == IF ct <= n THEN CkptVerdictIn(rb.es[A], ck) ELSE "HistoryUnavailable"
           cks == [NoCk EXCEPT ![A] = IF ckv = "ok" THEN {ck} ELSE {}]
       IN [rebuild |-> IF rb.ok THEN "ok" ELSE rb.err, at |-> rb.at,
           \* every tick of the rebuilt worldline (entries after a refused append are not part of it)
           ticks |-> [t \in 1..(n + 1) |-> Classify(ReplayIn(rb.es, NoCk, A, t - 1), IF t - 1 <= Len(EA) THEN OrigAt(t - 1) ELSE MatU0)],
           ckpt |-> ckv,
           ckticks |-> [t \in 1..(n + 1) |-> Classify(ReplayIn(rb.es, cks, A, t - 1), IF t - 1 <= Len(EA) THEN OrigAt(t - 1) ELSE MatU0)]]

\* transplant_rewritten yields, at most, the donor worldline's own verified history: compare with it
DonorAt(v, t) == AdvanceSeq(IF v = "sibling" THEN EF ELSE EB, MatU0, 0, t).mat

\* fields the chain is documented to bind (merkle-commit.md Decisions 1-2, append validation): for these
\* a tampered history never verifies to a different result.  Everything else is decided on the real code.
BoundField(c) ==
  \/ c.kind \in {"none", "swap", "swap_renumbered", "duplicate", "truncate", "drop_middle", "transplant", "transplant_claimed", "ckpt"}
  \/ c.kind = "alter" /\ c.field \in {"w", "tick", "head", "parents", "kind", "root", "pd", "cid", "patch", "patch.policy", "patch.pack",
                                       "patch.warp", "patch.ops", "patch.slots", "patch.pdigest", "receipt.tx", "receipt.digest"}
Evident(p) == \A i \in DOMAIN p.ticks : p.ticks[i] \notin {"diff_core", "diff_diag"}
EvidentCk(p) == \A i \in DOMAIN p.ckticks : p.ckticks[i] \notin {"diff_core", "diff_diag"}

\* ---- chain mode ------------------------------------------------------------------------------------------
ChainOps == {W("p1", Keep, Keep), W(Keep, "p2", "p0")}
ChainWls == {A, B}
CoordAppend(w, h, ops) ==
  /\ w \in Worldlines /\ Len0(w) < MaxEntries
  /\ AppendEntry(CoordEntry(w, h, Len0(w), Len0(w) + 1, Tip(w), StateAt(w, Len0(w)).st, ops, 0, <<>>))
  /\ UNCHANGED log
  /\ UNCHANGED <<cur, last, tc>>
ChainFork(src, t) ==
  /\ tc = 0 /\ Fork(src, t, F)
  /\ tc' = 1 /\ UNCHANGED log
  /\ UNCHANGED <<cur, last>>

\* ---- spec ---------------------------------------------------------------------------------------------------
Init ==
  /\ cur = [w |-> A, tick |-> 0, role |-> "Reader", mode |-> Paused, mat |-> MatU0, pin |-> 0] /\ last = NoOutcome
  /\ log = <<>>
  /\ IF Mode = "tamper"
     THEN /\ tc \in {c \in EntryCases \cup CkptCases : c.kind = "ckpt" \/ CaseOk(c)}
          /\ entries = [x \in {A, F, B} |-> IF x = A THEN EA ELSE Others[x]] /\ ckpts = NoCk
     ELSE /\ tc = 0 /\ entries = [x \in ChainWls |-> <<>>] /\ ckpts = [x \in ChainWls |-> {}]

Next ==
  /\ Mode = "chain"
  /\ \/ \E w \in {A, B, F}, h \in {"h0", "h1"}, ops \in ChainOps : CoordAppend(w, h, ops)
     \/ \E src \in ChainWls, t \in 0..(MaxEntries - 1) : ChainFork(src, t)

Spec == Init /\ [][Next]_vars

\* ---- properties ------------------------------------------------------------------------------------------------
\* tamper mode
Inv_Untampered == (Mode = "tamper" /\ tc.kind = "none") =>
                     LET p == Prediction(tc) IN p.rebuild = "ok" /\ \A i \in DOMAIN p.ticks : p.ticks[i] = "same"
Inv_BoundFieldsEvident == (Mode = "tamper" /\ BoundField(tc)) => LET p == Prediction(tc) IN Evident(p) /\ (tc.kind # "ckpt" => EvidentCk(p))
\* a consistently rewritten transplant is accepted only as the donor's own verified history
Inv_RewrittenTransplantIsDonorHistory ==
  (Mode = "tamper" /\ tc.kind = "transplant_rewritten") =>
     LET rb == Rebuild(Others, A, TamperedSeq(tc))
     IN \A t \in 0..Len(rb.es[A]) :
          LET r == ReplayIn(rb.es, NoCk, A, t)
          IN r.ok => (CoreOf(r.mat) = CoreOf(OrigAt(t)) \/ CoreOf(r.mat) = CoreOf(DonorAt(tc.variant, t)))
\* chain mode
Inv_Chain == Mode = "chain" => Inv_ChainWellFormed
Inv_PrefixesVerify == Mode = "chain" => \A w \in Worldlines : \A t \in 0..Len0(w) : ReplayAt(w, t).ok
\* the hash relation: equal commit ids <=> equal (parents, root, patch digest, policy), over the whole store
Inv_HashRelation ==
  Mode = "chain" =>
    \A w1, w2 \in Worldlines : \A i \in 1..Len0(w1), j \in 1..Len0(w2) :
       LET e1 == entries[w1][i]  e2 == entries[w2][j]
       IN (e1.cid = e2.cid) <=> (ParentCids(e1) = ParentCids(e2) /\ e1.root = e2.root /\ e1.pd = e2.pd /\ e1.patch.policy = e2.patch.policy)
GapFree == [][\A w \in Worldlines : Len(entries'[w]) \in {Len(entries[w]), Len(entries[w]) + 1}]_storeVars

\* ---- export ----------------------------------------------------------------------------------------------------------
StJson(st) == [k \in MC_Slots |-> st[k]]
OpsJson(ops) == [k \in MC_Slots |-> ops[k]]
LaneJson(w, ops, forkOf, forkAt) ==
  [w |-> w, fork_of |-> forkOf, fork_at |-> forkAt,
   ticks |-> [i \in 1..Len(ops) |-> [ops |-> OpsJson(ops[i]), head |-> HeadOf(i - 1), outs |-> Outs(w, i - 1)]]]
StoreJson == [u0 |-> StJson(MC_U0), lanes |-> <<LaneJson(A, OpsA, "", -1), LaneJson(F, OpsF, A, 0), LaneJson(B, OpsB, "", -1)>>]
ASSUME (Export /\ Mode = "tamper") => PrintT(<<"STORE", ToJson(StoreJson)>>)

CaseJson ==
  LET p == Prediction(tc)
  IN IF tc.kind = "ckpt"
     THEN [kind |-> tc.kind, pos |-> tc.pos - 1, field |-> tc.field, variant |-> tc.variant, rebuild |-> p.rebuild, at |-> p.at,
           ticks |-> p.ticks, ckpt |-> "", ckticks |-> <<>>, bound |-> BoundField(tc)]
     ELSE [kind |-> tc.kind, pos |-> tc.pos - 1, field |-> tc.field, variant |-> tc.variant, rebuild |-> p.rebuild, at |-> p.at,
           ticks |-> p.ticks, ckpt |-> p.ckpt, ckticks |-> p.ckticks, bound |-> BoundField(tc)]
Inv_Export == (Export /\ Mode = "tamper") => PrintT(<<"CASE", ToJson(CaseJson)>>)
=============================================================================
