SPECIFICATION MC_Spec
CONSTANTS
  Intents = {}
  IdRank <- MC_IdRank
  Handlers <- MC_Handlers
  HandlerRank <- MC_HandlerRank
  HMatches <- MC_HMatches
  DispatchPolicy = "min_id"
  None = None
  IntentSet = {"A1", "A2", "B1", "AB1", "N1"}
  EventSet = {"AB1"}
  SeqNos = {7}
  Mode = "graph"
  MidTx = TRUE
  UseDrainAll = TRUE
  MaxRetry = 0
  MaxTx = 0
  MaxAbort = 0
  MaxDrainAll = 0
  Export = TRUE
VIEW MC_View
INVARIANTS GraphWellFormed PendingIsSet LedgerPartition AtMostOnce ConsumedInCanonicalOrder HandledExactlyOnce LogSound LegacyIngressBlocksFresh TicksSound DrainIsFunctionOfSet
PROPERTIES RetryChangesNothing IngestLaw DispatchPicksMin OnlyCommitConsumes
CHECK_DEADLOCK FALSE
