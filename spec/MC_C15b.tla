------------------------------ MODULE MC_C15b ------------------------------
(***************************************************************************)
(* C15, braid-shell leg - bounded model.  A scenario (one or two sibling   *)
(* strands forked from the parent, parent / strand ticks with contending   *)
(* footprints, one settlement per strand under a plural policy, optionally *)
(* a support pin and a two-member weave of the retained members) is run    *)
(* through the settlement model of Strands.tla and leaves 1-3 retained     *)
(* shells (derived / conflict / plural; one and two members).  Then EVERY  *)
(* sequence of at most `depth` registry- or lane-changing operations       *)
(* (parent tick, collapse + retention under every policy / selection       *)
(* variant, re-settlement of a strand under either policy) is explored,    *)
(* and in every state so reached every pure call (audit and replay of      *)
(* every retained shell and of an unknown digest, collapse of every shell  *)
(* under every variant without retention) is taken as a transition whose   *)
(* successor differs in `blast` only (hidden from the VIEW) and is judged  *)
(* by the action properties.  One CASE per visited state: the path to it   *)
(* with the predicted outcome of each step, the predicted registry, and    *)
(* the predicted result of every pure call in that state.                  *)
(***************************************************************************)
EXTENDS BraidShells, Json, SequencesExt

CONSTANTS Scens,        \* sequence of scenario records
          OpsPPool,     \* programs of the parent ticks of the operation phase
          CVariants,    \* collapse variants <<policy name or "none", selection kind>> that are retained
          PVariants,    \* collapse variants only probed (never retained)
          ResettlePols, \* policies of re-settlements in the operation phase
          Export

VARIABLES trace,        \* the path so far (one record per state-changing public call, with the predicted outcome)
          ctl,          \* exploration bookkeeping
          names         \* retained shells in retention order (the harness keeps the same list of digests)
vars == <<wls, heads, reg, shells, gtick, plan, stl, last, store, pidx, born, blast, trace, ctl, names>>
View == <<wls, heads, reg, shells, gtick, plan, stl, last, store, pidx, born, trace, ctl, names>>

Pr(k, a, b, v) == [k |-> k, a |-> a, b |-> b, v |-> v]
MC_Prog == <<
  Pr("set",  "n1", "n1", "p0"),    \* 1
  Pr("set",  "n1", "n1", "p1"),    \* 2
  Pr("set",  "n2", "n2", "p0"),    \* 3
  Pr("set",  "n3", "n3", "p1"),    \* 4
  Pr("copy", "n1", "n2", "none"),  \* 5  n2 := n1
  Pr("copy", "n2", "n3", "none"),  \* 6  n3 := n2
  Pr("read", "n1", "n1", "none"),  \* 7
  Pr("del",  "n4", "n4", "none"),  \* 8
  Pr("mk",   "n4", "n4", "tB"),    \* 9
  Pr("set",  "n2", "n2", "p1"),    \* 10
  Pr("copy", "n3", "n1", "none"),  \* 11 n1 := n3
  Pr("set",  "n3", "n3", "p0")     \* 12
>>

\* ---- scenarios ------------------------------------------------------------------------------
\* pp: parent ticks after the forks; a / b: ticks of strand sA / sB (b = <<>>: one strand); polA / polB: settlement
\* policies; pin: sB pins sA at its tip; joint: "none" | "fresh" | "same"; depth: operations explored afterwards;
\* lean: TRUE restricts the operation alphabet to the joint shell (collapse) and strand sA (re-settlement)
Sc(pp, a, b, polA, polB, pin, joint, depth, lean) ==
  [pp |-> pp, a |-> a, b |-> b, polA |-> polA, polB |-> polB, pin |-> pin, joint |-> joint, depth |-> depth, lean |-> lean]
MC_Scens_quick == <<
  Sc(<<2>>, <<5>>,     <<>>,  "plural",  "",        FALSE, "none",  3, FALSE),   \* one plural decision
  Sc(<<2>>, <<5>>,     <<>>,  "refused", "",        FALSE, "none",  3, FALSE),   \* the same entry as conflict residue
  Sc(<<2>>, <<10, 5>>, <<>>,  "plural",  "",        FALSE, "none",  2, FALSE),   \* import, then plural
  Sc(<<2>>, <<5, 10>>, <<>>,  "plural",  "",        FALSE, "none",  2, FALSE),   \* plural, then PluralUpstream conflict
  Sc(<<>>,  <<10>>,    <<>>,  "refused", "",        FALSE, "none",  2, FALSE),   \* unmoved parent: derived shell
  Sc(<<2>>, <<5>>,     <<5>>, "plural",  "plural",  FALSE, "fresh", 2, TRUE),    \* two plural members
  Sc(<<2>>, <<5>>,     <<5>>, "plural",  "refused", FALSE, "fresh", 2, TRUE),    \* a plural and a conflict member
  Sc(<<2>>, <<5>>,     <<5>>, "plural",  "refused", TRUE,  "same",  1, FALSE),   \* bound alternative claimed again: refused
  Sc(<<2>>, <<5>>,     <<5>>, "refused", "refused", FALSE, "fresh", 1, FALSE)    \* two conflict members
>>
\* thorough: every strand tick sequence of length 1..2 over the pool x moved / unmoved parent x both policies,
\* and every policy pair / weave mode for the sibling scenarios
TSeqs == {<<x>> : x \in {5, 10, 8}} \cup {<<x, y>> : x \in {5, 10, 8}, y \in {5, 10}}
MC_Scens_thorough ==
  SetToSeq({Sc(pp, a, <<>>, pol, "", FALSE, "none", 3, FALSE) : pp \in {<<>>, <<2>>, <<2, 8>>}, a \in TSeqs, pol \in {"refused", "plural"}})
  \o SetToSeq({Sc(<<2>>, a, b, polA, polB, pin, j, 2, TRUE) :
                 a \in {<<5>>, <<10, 5>>}, b \in {<<5>>, <<11>>}, polA \in {"refused", "plural"}, polB \in {"refused", "plural"},
                 pin \in {FALSE}, j \in {"fresh", "same"}})
  \o SetToSeq({Sc(<<2>>, <<5>>, <<5>>, polA, polB, TRUE, "fresh", 2, FALSE) : polA \in {"refused", "plural"}, polB \in {"refused", "plural"}})
MC_CVariants == {<<"none", "none">>, <<"cA", "none">>, <<"cA", "m1">>, <<"cA", "par">>, <<"cB", "m1">>, <<"cA", "m2">>, <<"cB", "both">>}
MC_PVariants == MC_CVariants \cup {<<"zero", "m1">>, <<"none", "m1">>, <<"plural", "m1">>}

Item(op, w, pi, sid, pol, mode) == [op |-> op, w |-> w, pi |-> pi, sid |-> sid, pol |-> pol, mode |-> mode]
TickItems(w, s) == [i \in 1..Len(s) |-> Item("tick", w, s[i], "", "", "")]
Script(sc) ==
  LET two == Len(sc.b) > 0
  IN <<Item("tick", "P", 1, "", "", ""), Item("fork", "A", 0, "sA", "", "")>>
     \o (IF two THEN <<Item("fork", "B", 0, "sB", "", "")>> ELSE <<>>)
     \o TickItems("P", sc.pp) \o TickItems("A", sc.a) \o TickItems("B", sc.b)
     \o (IF sc.pin THEN <<Item("pin", "", 0, "", "", "")>> ELSE <<>>)
     \o <<Item("settle", "", 0, "sA", sc.polA, "")>>
     \o (IF two THEN <<Item("settle", "", 0, "sB", sc.polB, "")>> ELSE <<>>)
     \o (IF sc.joint # "none" THEN <<Item("joint", "", 0, "", "", sc.joint)>> ELSE <<>>)

\* ---- JSON projections ---------------------------------------------------------------------------
Snap(w) == [vals |-> [x \in DOMAIN w |-> w[x].val], lens |-> [x \in DOMAIN w |-> Len(w[x].hist)]]
RefJson(r) == [w |-> r[1], t |-> r[2]]
RefsJson(s) == [i \in 1..Len(s) |-> RefJson(s[i])]
PidJson(p) == [target |-> p.target, child |-> p.child, t |-> p.t, eo |-> p.eo, pol |-> p.pol, joint |-> p.joint]
DecJson(d) == [kind |-> d.kind, reason |-> IF d.kind = "conflict" THEN d.why ELSE "",
               pid |-> IF d.kind = "plural" THEN <<PidJson(d.why)>> ELSE <<>>]
MemberJson(m) ==
  [ref |-> m.ref, verdict |-> m.verdict, claims |-> RefsJson(m.claims), decs |-> [i \in 1..Len(m.decs) |-> DecJson(m.decs[i])],
   npins |-> Len(m.pins), fbasis |-> RefJson(m.fbasis), frontier |-> RefJson(m.frontier), eo |-> m.eo, posture |-> m.posture]
IdxIn(nm, s) == IF \E i \in 1..Len(nm) : nm[i] = s THEN CHOOSE i \in 1..Len(nm) : nm[i] = s ELSE 0
OutJson(nm, o) ==
  [k |-> o.k, alts |-> {PidJson(p) : p \in o.alts}, refs |-> RefsJson(o.refs), codes |-> o.codes,
   cpol |-> IF o.cpol = None THEN "" ELSE o.cpol, from |-> IF o.from = None THEN 0 ELSE IdxIn(nm, o.from), code |-> o.code]
ShellJson(nm, s) ==
  [wl |-> s.wl, basis |-> RefJson(s.basis), pol |-> s.pol, posture |-> s.posture,
   members |-> {MemberJson(m) : m \in s.members}, out |-> OutJson(nm, s.out)]
VerdictsJson(r) == IF r.ok THEN r.verdicts ELSE {}

\* ---- exploration ---------------------------------------------------------------------------------
Missing == [wl |-> "Z", basis |-> <<"Z", 0>>, members |-> {}, pol |-> "none", out |-> NoOut, posture |-> "Shared"]
CurSc == Scens[ctl.sc]
CurScript == Script(CurSc)
InScript == ctl.stage = "script" /\ ctl.pc <= Len(CurScript)
CurItem == CurScript[ctl.pc]
Advance(c) == IF c.stage = "script"
              THEN (IF c.pc + 1 > Len(Script(Scens[c.sc])) THEN [c EXCEPT !.pc = @ + 1, !.stage = "ops"] ELSE [c EXCEPT !.pc = @ + 1])
              ELSE [c EXCEPT !.n = @ + 1]

Init ==
  /\ BInit
  /\ trace = <<>> /\ names = <<>>
  /\ \E i \in 1..Len(Scens) : ctl = [stage |-> "script", sc |-> i, pc |-> 1, n |-> 0, back |-> "script", pend |-> <<>>]

TickRec(w, pi) == [op |-> "tick", w |-> w, pi |-> pi] @@ Snap(wls')

MCScriptTick ==
  /\ InScript /\ CurItem.op = "tick"
  /\ BTick(CurItem.w, CurItem.pi)
  /\ trace' = Append(trace, TickRec(CurItem.w, CurItem.pi))
  /\ ctl' = Advance(ctl) /\ UNCHANGED names
MCScriptFork ==
  /\ InScript /\ CurItem.op = "fork"
  /\ BFork(CurItem.sid, "P", 0, CurItem.w)
  /\ trace' = Append(trace, [op |-> "fork", sid |-> CurItem.sid, src |-> "P", t |-> 0, child |-> CurItem.w] @@ Snap(wls'))
  /\ ctl' = Advance(ctl) /\ UNCHANGED names
MCScriptPin ==
  /\ InScript /\ CurItem.op = "pin"
  /\ LET tick == Len(wls["A"].hist) - 1
     IN /\ Pin("sB", "sA", tick)
        /\ trace' = Append(trace, [op |-> "pin", owner |-> "sB", target |-> "sA", tick |-> tick, ok |-> PinOk("sB", "sA", tick)] @@ Snap(wls'))
  /\ blast' = [op |-> "pin", pre |-> Pre]
  /\ ctl' = Advance(ctl) /\ UNCHANGED <<names, store, pidx, born>>

\* settlement (scenario: the scripted one; operation phase: a re-settlement)
SettleRec(sid, pol, ok, empty, dec, made, idx) ==
  [op |-> "settle", sid |-> sid, pol |-> pol, child |-> reg[sid].child, ok |-> ok, empty |-> empty,
   kinds |-> [i \in 1..Len(dec) |-> dec[i].kind], reasons |-> [i \in 1..Len(dec) |-> dec[i].reason],
   ts |-> [i \in 1..Len(dec) |-> dec[i].t],
   pids |-> [i \in 1..Len(dec) |-> IF dec[i].kind = "plural" THEN <<PidJson(Pid("P", reg[sid].child, dec[i].t, dec[i].eo, pol))>> ELSE <<>>],
   made |-> made, idx |-> idx, nshells |-> Cardinality(store')] @@ Snap(wls')
\* plan (pure; SettlementService::plan_with_policy), then settle
BeginPlan(sid, pol, back) ==
  /\ PlanStep(sid, pol)
  /\ blast' = [op |-> "plan", pre |-> Pre]
  /\ ctl' = [ctl EXCEPT !.stage = "planned", !.back = back, !.pend = <<sid, pol>>]
  /\ UNCHANGED <<trace, names, store, pidx, born>>
MCSettleBegin ==
  /\ ctl.stage = "planned"
  /\ LET sid == ctl.pend[1] pol == ctl.pend[2]
     IN /\ BSettleBegin(sid, pol)
        /\ IF stl' = None
           THEN /\ trace' = Append(trace, SettleRec(sid, pol, TRUE, TRUE, <<>>, <<>>, 0))
                /\ ctl' = Advance([ctl EXCEPT !.stage = ctl.back])
           ELSE /\ trace' = trace
                /\ ctl' = [ctl EXCEPT !.stage = "settling"]
  /\ UNCHANGED names
MCScriptSettle == InScript /\ CurItem.op = "settle" /\ BeginPlan(CurItem.sid, CurItem.pol, "script")
MCSettleStep == ctl.stage = "settling" /\ BSettleStep /\ UNCHANGED <<trace, ctl, names>>
MCSettleRetain ==
  /\ ctl.stage = "settling"
  /\ Retain
  /\ names' = Append(names, blast'.shell)
  /\ trace' = Append(trace, SettleRec(stl.sid, stl.pol, TRUE, FALSE, stl.dec, <<ShellJson(names', blast'.shell)>>, Len(names')))
  /\ ctl' = Advance([ctl EXCEPT !.stage = ctl.back])
\* the code's own refusal at the shell step (a plural id of this plan is already bound): everything restored
MCSettleRefused ==
  /\ ctl.stage = "settling" /\ ShellRefused
  /\ BSettleFail
  /\ trace' = Append(trace, SettleRec(stl.sid, stl.pol, FALSE, FALSE, stl.dec, <<>>, 0))
  /\ ctl' = Advance([ctl EXCEPT !.stage = ctl.back]) /\ UNCHANGED names

JointRec(a, b, mode, r, nm) ==
  [op |-> "joint", a |-> IdxIn(names, a), b |-> IdxIn(names, b), mode |-> mode, ok |-> r.ok, err |-> r.err,
   made |-> <<ShellJson(nm, r.shell)>>, idx |-> IF r.ok THEN IdxIn(nm, r.shell) ELSE 0, nshells |-> Cardinality(store')] @@ Snap(wls')
MCScriptJoint ==
  /\ InScript /\ CurItem.op = "joint"
  /\ LET a == names[1] b == names[2]
     IN /\ RetainJoint(a, b, CurItem.mode)
        /\ names' = IF blast'.res.new THEN Append(names, blast'.res.shell) ELSE names
        /\ trace' = Append(trace, JointRec(a, b, CurItem.mode, blast'.res, names'))
  /\ ctl' = Advance(ctl)

\* ---- the operation phase --------------------------------------------------------------------------
InOps == ctl.stage = "ops" /\ Idle
MayChange == InOps /\ ctl.n < CurSc.depth
PluralRefs(d) == SelectSeq(<<"sA", "sB">>, LAMBDA r : \E m \in d.members : m.ref = r /\ m.verdict = "Plural")
PluralClaim(d, r) ==
  LET m == CHOOSE x \in d.members : x.ref = r
      i == CHOOSE j \in 1..Len(m.decs) : m.decs[j].kind = "plural"
  IN m.claims[i]
SelOk(d, kind) == kind \in {"none", "par"} \/ (kind = "m1" /\ Len(PluralRefs(d)) >= 1) \/ (kind \in {"m2", "both"} /\ Len(PluralRefs(d)) >= 2)
SelOf(d, kind) ==
  CASE kind = "none" -> <<>>
    [] kind = "par"  -> <<<<d.wl, d.basis[2] + 1>>>>                    \* the parent's own entry after the anchor
    [] kind = "m1"   -> <<PluralClaim(d, PluralRefs(d)[1])>>
    [] kind = "m2"   -> <<PluralClaim(d, PluralRefs(d)[2])>>
    [] OTHER         -> <<PluralClaim(d, PluralRefs(d)[1]), PluralClaim(d, PluralRefs(d)[2])>>
CPol(v) == IF v[1] = "none" THEN None ELSE v[1]
CollapseJson(nm, d, v, keep, c, a) ==
  [op |-> "collapse", d |-> IdxIn(names, d), cpol |-> v[1], selkind |-> v[2],
   sel |-> IF d \in store /\ d.out.k = "plural" /\ SelOk(d, v[2]) THEN RefsJson(SelOf(d, v[2])) ELSE <<>>,
   keep |-> keep, class |-> c.class, err |-> c.err,
   pol |-> IF c.ok THEN c.shell.pol ELSE "", out |-> IF c.ok THEN <<OutJson(nm, c.shell.out)>> ELSE <<>>,
   idx |-> IF c.ok THEN IdxIn(nm, c.shell) ELSE 0, new |-> a.new]
LeanOk(d) == ~CurSc.lean \/ Cardinality(d.members) = 2

MCOpTick(pi) ==
  /\ MayChange /\ pi \in OpsPPool
  /\ BTick("P", pi)
  /\ trace' = Append(trace, TickRec("P", pi))
  /\ ctl' = Advance(ctl) /\ UNCHANGED names
MCOpCollapse(d, v) ==
  /\ MayChange /\ d \in store /\ d.out.k = "plural" /\ v \in CVariants /\ SelOk(d, v[2]) /\ LeanOk(d)
  /\ Collapse(d, CPol(v), SelOf(d, v[2]), TRUE)
  /\ names' = IF blast'.app.new THEN Append(names, blast'.res.shell) ELSE names
  /\ trace' = Append(trace, CollapseJson(names', d, v, TRUE, blast'.res, blast'.app) @@ [nshells |-> Cardinality(store')] @@ Snap(wls'))
  /\ ctl' = Advance(ctl)
MCOpResettle(sid, pol) ==
  /\ MayChange /\ sid \in DOMAIN reg /\ pol \in ResettlePols /\ (CurSc.lean => sid = "sA")
  /\ BeginPlan(sid, pol, "ops")

\* pure calls: the successor differs in `blast` only
MCProbeAudit(d) == InOps /\ AuditShell(d) /\ UNCHANGED <<trace, ctl, names>>
MCProbeReplay(d) == InOps /\ ReplayShell(d) /\ UNCHANGED <<trace, ctl, names>>
ProbeSel(d, v) == IF d \in store /\ d.out.k = "plural" /\ SelOk(d, v[2]) THEN SelOf(d, v[2]) ELSE <<>>
\* every variant on a plural shell; on the others (and on an unknown digest) every variant is refused alike
ProbeVariants(d) ==
  IF d \in store /\ d.out.k = "plural" THEN {v \in PVariants : SelOk(d, v[2])}
  ELSE {<<"none", "none">>, <<"cA", "none">>, <<"zero", "none">>}
MCProbeCollapse(d, v) ==
  /\ InOps /\ v \in ProbeVariants(d)
  /\ Collapse(d, CPol(v), ProbeSel(d, v), FALSE)
  /\ UNCHANGED <<trace, ctl, names>>

Next ==
  \/ MCScriptTick \/ MCScriptFork \/ MCScriptPin \/ MCScriptSettle \/ MCScriptJoint
  \/ MCSettleBegin \/ MCSettleStep \/ MCSettleRetain \/ MCSettleRefused
  \/ \E pi \in OpsPPool : MCOpTick(pi)
  \/ \E d \in store : \E v \in CVariants : MCOpCollapse(d, v)
  \/ \E sid \in {"sA", "sB"} : \E pol \in ResettlePols : MCOpResettle(sid, pol)
  \/ \E d \in store \cup {Missing} : MCProbeAudit(d) \/ MCProbeReplay(d) \/ (\E v \in ProbeVariants(d) : MCProbeCollapse(d, v))
Spec == Init /\ [][Next]_vars

\* ---- export: one CASE per visited state of the operation phase -------------------------------------
ReadJson(op, d, r) ==
  [op |-> op, d |-> IdxIn(names, d), ok |-> r.ok, err |-> r.err, kind |-> IF r.ok THEN r.kind ELSE "",
   verdicts |-> VerdictsJson(r), pol |-> IF r.ok THEN r.pol ELSE "", law |-> IF r.ok THEN r.law ELSE ""]
NoApp == [new |-> FALSE]
Probes ==
  LET ds == SetToSeq(store \cup {Missing})
      reads == [i \in 1..Len(ds) |-> <<ReadJson("audit", ds[i], AuditRes(store, ds[i])), ReadJson("replay", ds[i], ReplayRes(store, ds[i]))>>]
      cols == [i \in 1..Len(ds) |->
                 LET vs == SetToSeq(ProbeVariants(ds[i]))
                 IN [j \in 1..Len(vs) |-> CollapseJson(names, ds[i], vs[j], FALSE, CollapseRes(store, ds[i], CPol(vs[j]), ProbeSel(ds[i], vs[j])), NoApp)]]
  IN [reads |-> reads, collapses |-> cols]
PidxJson == {[pid |-> PidJson(p), shell |-> IdxIn(names, pidx[p])] : p \in DOMAIN pidx}
CaseJson ==
  [scen |-> ctl.sc, depth |-> ctl.n, steps |-> trace, prog |-> [k \in 1..Len(Prog) |-> Prog[k]],
   shells |-> [i \in 1..Len(names) |-> ShellJson(names, names[i])], pidx |-> PidxJson, probes |-> Probes]
Inv_Export == (Export /\ InOps) => PrintT(<<"CASE", ToJson(CaseJson)>>)
Inv_NamesAreStore == Idle => ({names[i] : i \in 1..Len(names)} = store /\ Cardinality(store) = Len(names))

\* ---- action properties ----------------------------------------------------------------------------
P_ShellCallsNeverTouchLanes == [][A_ShellCallsNeverTouchLanes]_vars
P_AuditReplayPure == [][A_AuditReplayPure]_vars
P_AuditReplayDeterministic == [][A_AuditReplayDeterministic]_vars
P_StoreAppendOnly == [][A_StoreAppendOnly]_vars
P_TicksKeepShells == [][A_TicksKeepShells]_vars
\* the state-shaped laws about the last call, re-stated on the successor so that they are also judged on the
\* pure transitions the VIEW folds away
P_LastCallLaws ==
  [][(ShellCallsNeverTouchLanes /\ AuditReplayPure /\ CollapseWithoutPolicyRefused /\ CollapseRecordsExactlyTheSelection
      /\ CollapseAllOrNothing /\ JointAllOrNothing)']_vars
=============================================================================
