---------------------------- MODULE ParallelExec ----------------------------
(***************************************************************************)
(* Execution of the accepted rewrites of one tick by a pool of workers     *)
(* (parallel/exec.rs: build_work_units, execute_work_queue,                *)
(*  execute_item_enforced; engine_impl.rs: merge_parallel_deltas), with    *)
(* footprint enforcement (footprint_guard.rs).                             *)
(*                                                                         *)
(* The ONLY shared variable is the claim counter `next`.  Every worker has *)
(* a private delta.  A footprint violation or an executor panic poisons    *)
(* the worker's delta: the worker stops, the merge refuses, the tick fails *)
(* and nothing becomes visible.                                            *)
(***************************************************************************)
EXTENDS Tick

CONSTANTS Shard,      \* node id -> shard number (low byte of the real id), from the harness
          Fault,      \* rule index -> fault kind ("" = honest executor)
          Omit        \* rule index -> footprint class dropped from the declaration ("" = none)

(***************************************************************************)
(* What one item does under enforcement                                    *)
(***************************************************************************)
\* declared footprint after the omission (this is what the scheduler AND the guard see)
Dropped(f, cls) ==
  CASE cls = "n_read"  -> [f EXCEPT !.nr = {}]
    [] cls = "n_write" -> [f EXCEPT !.nw = {}]
    [] cls = "e_read"  -> [f EXCEPT !.er = {}]
    [] cls = "e_write" -> [f EXCEPT !.ew = {}]
    [] cls = "a_read"  -> [f EXCEPT !.ar = {}]
    [] cls = "a_write" -> [f EXCEPT !.aw = {}]
    [] OTHER -> f
GuardFP(c) == Dropped(DeclaredFP(Prog[c[1]], c[2], c[3]), Omit[c[1]])
\* what the scheduler sees: the declaration plus the descent-chain reads added by apply_in_warp
SchedFP(c, s) == WithDescent(GuardFP(c), s, c[2])

\* reads the executor performs, in order (harness/src/programs.rs performs them unconditionally
\* and in exactly this order): <<"node"|"adj"|"natt"|"edge"|"eatt", id>>
Reads(pr, scope) ==
  LET a == Res(pr.a, scope)  b == Res(pr.b, scope)  e == pr.e
  IN CASE pr.kind = "SetAtom"     -> <<<<"node", a>>, <<"natt", a>>>>
       [] pr.kind = "CopyAtt"     -> <<<<"node", b>>, <<"natt", a>>, <<"natt", b>>>>
       [] pr.kind = "AddEdge"     -> <<<<"node", a>>, <<"node", b>>>>
       [] pr.kind = "DelEdgeFrom" -> <<<<"adj", a>>, <<"eatt", e>>>>
       [] pr.kind = "SetEdgeAtom" -> <<<<"edge", e>>, <<"eatt", e>>>>
       [] pr.kind = "UpsertNode"  -> <<>>
       [] pr.kind = "RetypeByAtt" -> <<<<"natt", a>>>>
       [] pr.kind = "DelNodeIso"  -> <<<<"node", a>>, <<"adj", a>>, <<"natt", a>>>>

\* extra accesses injected by a fault; X/EX are ids outside every declared footprint
X == "n3"
EX == "e2"
FaultReads(f) ==
  CASE f = "read_node" -> <<<<"node", X>>>> [] f = "read_adj" -> <<<<"adj", X>>>>
    [] f = "read_natt" -> <<<<"natt", X>>>> [] f = "read_eatt" -> <<<<"eatt", EX>>>>
    [] f = "read_edge" -> <<<<"edge", EX>>>>
    [] f = "read_natt_n2" -> <<<<"natt", "n2">>>>      \* same local id as the portal owner of the descent chain
    [] OTHER -> <<>>
OtherWarp(w) == CHOOSE v \in Warps : v # w
FaultOps(f, w, scope) ==
  CASE f = "write_node" -> <<OpUpsertNode(w, X, "tA")>>
    [] f = "write_edge" -> <<OpUpsertEdge(w, EX, scope, scope, "tA")>>      \* from = scope: edge e2 is the undeclared target
    [] f = "write_edge_from" -> <<OpUpsertEdge(w, EX, X, scope, "tA")>>     \* from = n3: the source node is the first undeclared target
    [] f = "write_att" -> <<OpSetAtt(NAtt(w, X), Atom("p0"))>>
    [] f = "del_node" -> <<OpDeleteNode(w, X)>>
    [] f = "del_edge" -> <<OpDeleteEdge(w, X, EX)>>
    [] f = "cross_warp" -> <<OpUpsertNode(OtherWarp(w), scope, "tA")>>
    [] f = "instance_upsert" -> <<OpUpsertInst(w, scope, None)>>
    [] f = "instance_delete" -> <<OpDeleteInst(w)>>
    [] f = "open_portal" -> <<OpOpenPortal(NAtt(w, scope), OtherWarp(w), "n0", <<"empty", "tA">>)>>
    [] f = "open_portal_existing" -> <<OpOpenPortal(NAtt(w, scope), OtherWarp(w), "n0", <<"require">>)>>
    [] OTHER -> <<>>

ReadViolation(fp, w, acc) ==
  CASE acc[1] \in {"node", "adj"} -> IF NKey(w, acc[2]) \in fp.nr THEN None ELSE <<"NodeReadNotDeclared", acc[2]>>
    [] acc[1] = "edge" -> IF EKey(w, acc[2]) \in fp.er THEN None ELSE <<"EdgeReadNotDeclared", acc[2]>>
    [] acc[1] = "natt" -> IF NAtt(w, acc[2]) \in fp.ar THEN None ELSE <<"AttachmentReadNotDeclared", acc[2]>>
    [] acc[1] = "eatt" -> IF EAtt(w, acc[2]) \in fp.ar THEN None ELSE <<"AttachmentReadNotDeclared", acc[2]>>

\* FootprintGuard::check_op, check order: instance op, cross-warp, nodes, edges, attachments
OpWarp(o) == IF o.op \in {"OpenPortal", "SetAttachment"} THEN o.key[2] ELSE o.w
OpViolation(fp, w, o) ==
  IF o.op \in {"OpenPortal", "UpsertWarpInstance", "DeleteWarpInstance"} THEN <<"UnauthorizedInstanceOp", o.op>>
  ELSE IF OpWarp(o) # w THEN <<"CrossWarpEmission", o.op>>
  ELSE LET nodes == CASE o.op \in {"UpsertNode", "DeleteNode"} -> {NKey(o.w, o.n)}
                      [] o.op \in {"UpsertEdge", "DeleteEdge"} -> {NKey(o.w, o.from)}
                      [] OTHER -> {}
           edges == IF o.op \in {"UpsertEdge", "DeleteEdge"} THEN {EKey(o.w, o.e)} ELSE {}
           atts  == CASE o.op = "DeleteNode" -> {NAtt(o.w, o.n)}
                      [] o.op = "DeleteEdge" -> {EAtt(o.w, o.e)}
                      [] o.op = "SetAttachment" -> {o.key}
                      [] OTHER -> {}
       IN IF ~(nodes \subseteq fp.nw) THEN <<"NodeWriteNotDeclared", o.op>>
          ELSE IF ~(edges \subseteq fp.ew) THEN <<"EdgeWriteNotDeclared", o.op>>
          ELSE IF ~(atts \subseteq fp.aw) THEN <<"AttachmentWriteNotDeclared", o.op>>
          ELSE None

RECURSIVE FirstSome(_, _)
FirstSome(seq, i) == IF i > Len(seq) THEN None ELSE IF seq[i] # None THEN seq[i] ELSE FirstSome(seq, i + 1)

\* outcome of executing candidate c against `pre`: [poison, ops]
\*   poison = None | <<"violation", kind, detail>> | <<"panic">>
ItemOutcome(c, pre) ==
  LET pr == Prog[c[1]]  w == c[2]  scope == c[3]
      fp == GuardFP(c)
      reads == Reads(pr, scope) \o FaultReads(Fault[c[1]])
      rv == FirstSome([k \in 1..Len(reads) |-> ReadViolation(fp, w, reads[k])], 1)
      ownOps == CanonSeq(Effects(pr, pre, w, scope))          \* at most one op per program
      ops == ownOps \o FaultOps(Fault[c[1]], w, scope)
      wv == FirstSome([k \in 1..Len(ops) |-> OpViolation(fp, w, ops[k])], 1)
  IN IF rv # None THEN [poison |-> <<"violation", rv[1]>>, ops |-> <<>>]       \* immediate unwind: nothing emitted
     ELSE IF wv # None THEN [poison |-> <<"violation", wv[1]>>, ops |-> ops]  \* post-hoc, also after a panic
     ELSE IF Fault[c[1]] = "panic" THEN [poison |-> <<"panic">>, ops |-> ops]
     ELSE [poison |-> None, ops |-> ops]

(***************************************************************************)
(* Work units: (warp, shard) groups in canonical order, items in drain order*)
(***************************************************************************)
UnitKey(c) == <<c[2], Shard[c[3]]>>
UnitLess(k1, k2) == RankW[k1[1]] < RankW[k2[1]] \/ (k1[1] = k2[1] /\ k1[2] < k2[2])
UnitsOf(acceptedSeq) ==
  LET keys == {UnitKey(acceptedSeq[k]) : k \in 1..Len(acceptedSeq)}
      order == SetToSortSeq(keys, UnitLess)
  IN [u \in 1..Len(order) |-> SelectSeq(acceptedSeq, LAMBDA c : UnitKey(c) = order[u])]

\* executes the items of one unit serially into `delta`; stops at the first poison
RECURSIVE RunUnit(_, _, _, _)
RunUnit(items, i, pre, delta) ==
  IF i > Len(items) THEN [poison |-> None, delta |-> delta]
  ELSE LET r == ItemOutcome(items[i], pre)
       IN IF r.poison # None THEN [poison |-> r.poison, delta |-> delta \o r.ops]
          ELSE RunUnit(items, i + 1, pre, delta \o r.ops)

\* merge_parallel_deltas (flatten in worker order, canonical sort, dedupe, reject divergent)
FlattenOps(deltas) == UNION {{deltas[w][k] : k \in 1..Len(deltas[w])} : w \in DOMAIN deltas}
=============================================================================
