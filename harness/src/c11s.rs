//! C11, segmented leg (WalSeg.tla / MC_C11s.tla): rotated logs, the published manifest and the
//! writer-epoch ledger cross-check.
//!
//! Two families of REAL logs are built per (layout, epoch-of-segment, nf) shape named by the model cases:
//!   S  a `FilesystemWalStore` driven through its public API exactly like the model's scripted writer:
//!      acquire_writer_epoch, append_transaction (submission intake with retained material = 3 frames,
//!      frames chained with the real previous digests), rotate_segment, close_epoch + reopen +
//!      acquire_writer_epoch for the successor epoch, publish_manifest. Logs A (under edit), C (same
//!      epoch ids, other payloads), B (foreign epoch ids), H (epoch 1 shared, epoch 2 foreign).
//!   H  a real `TrustedRuntimeHost` with a filesystem WAL run in two sessions (= two writer epochs, the
//!      second derived by acquire_fresh_writer_epoch). The host never rotates (`rotate_segment` has no
//!      caller outside tests), so its single segment file is split at commit boundaries into the same
//!      segment files; frames keep header segment id 1, which the filesystem read path never compares
//!      with the file name. This family adds `enable_runtime_wal` (fresh host on the edited directory).
//! Every model case (edit kind x position) is applied to the real files and run through
//!   recover_filesystem_store (ReadOnly, and Writable followed by a second ReadOnly scan),
//!   doctor_filesystem_store, validate_filesystem_manifest, project_filesystem_wal_recovery,
//!   FilesystemWalStore::open, and (family H) enable_runtime_wal.
//! The property is decided here on the real outcome (identity + content digests of the recovered
//! history vs the committed one; manifest / ledger acceptance vs an independent parse of the files);
//! the model's predicted class travels with the case and differences are reported as drift.
//!
//! usage: echo-verif c11s <cases.ndjson> <out.ndjson> <seed> <quick|thorough>

use std::collections::{BTreeMap, BTreeSet};
use std::fs;
use std::path::{Path, PathBuf};

use rand::rngs::StdRng;
use rand::{Rng, SeedableRng};
use serde_json::{json, Value};
use warp_core::causal_wal::{
    build_submission_acceptance_with_material_transaction, canonical_segment_path, doctor_filesystem_store,
    project_filesystem_wal_recovery, recover_filesystem_store, validate_filesystem_manifest, AffectedFrontier,
    AffectedFrontierKind, FilesystemWalStore, Lsn, PayloadCodecId, PayloadSchemaId, RecoveryAccessMode,
    RecoveryScanReport, SubmissionAcceptanceRecord, WalAppendAuthority, WalDoctorPosture, WalDurabilityMode,
    WalManifest, WalRecoveryProjectionPosture, WalSegmentId, WalStorePort, WalSubmissionEnvelopeRecord,
    WalTransactionBuilder, WalTransactionId, WalTransactionKind, WalWriterEpoch, WriterEpoch, WriterEpochId,
    WriterEpochRequest,
};
use warp_core::{make_head_id, Hash, WorldlineId, WriterHeadKey};

use crate::c10::{run_ops, view_of, Op, Sim, Workload};
use crate::util::{catch, read_lines, Out};
use crate::walfix_c10::{callbacks, h, hash_hex, open_host, package, read_ledger, read_segment};

const MAGIC: &[u8; 8] = b"ECWALR1!";
const REC_HEADER: usize = 17;

// --------------------------------------------------------------------------- independent parsers

/// One disk record `magic(8) | kind(1) | len(8 LE) | payload | digest(32)`, parsed independently.
#[derive(Clone, Debug)]
struct Rec {
    start: usize,
    end: usize,
    kind: u8,
    tx: [u8; 32],
    /// frames: LSN; commits: last LSN
    lsn: u64,
    first: u64,
    epoch: [u8; 32],
    /// frames: segment id of the header
    sid: u64,
    /// commits: commit digest (last 32 bytes of the payload)
    cdig: [u8; 32],
}

fn disk_record_digest(kind: u8, payload: &[u8]) -> [u8; 32] {
    let mut hh = blake3::Hasher::new();
    hh.update(b"echo:causal_wal:disk_record:v1\0");
    hh.update(&[kind]);
    hh.update(&(payload.len() as u64).to_le_bytes());
    hh.update(payload);
    hh.finalize().into()
}

/// Records of a segment file up to the first one that is incomplete or fails magic / digest.
/// Returns (records, whole file consumed).
fn parse_file(bytes: &[u8]) -> (Vec<Rec>, bool) {
    let mut out = Vec::new();
    let mut off = 0usize;
    while off < bytes.len() {
        if off + REC_HEADER > bytes.len() || &bytes[off..off + 8] != MAGIC {
            return (out, false);
        }
        let kind = bytes[off + 8];
        let len = u64::from_le_bytes(bytes[off + 9..off + 17].try_into().unwrap()) as usize;
        let p = off + REC_HEADER;
        let end = match p.checked_add(len).and_then(|x| x.checked_add(32)) {
            Some(e) if e <= bytes.len() => e,
            _ => return (out, false),
        };
        let payload = &bytes[p..p + len];
        if bytes[p + len..end] != disk_record_digest(kind, payload) {
            return (out, false);
        }
        let u64at = |o: usize| u64::from_le_bytes(payload[o..o + 8].try_into().unwrap());
        let h32 = |o: usize| -> [u8; 32] { payload[o..o + 32].try_into().unwrap() };
        let rec = if kind == 1 && len >= 86 {
            Rec { start: off, end, kind, epoch: h32(2), sid: u64at(34), lsn: u64at(42), tx: h32(50), first: 0, cdig: [0; 32] }
        } else if kind == 2 && len >= 89 + 32 {
            Rec { start: off, end, kind, epoch: h32(0), tx: h32(32), first: u64at(65), lsn: u64at(73), sid: 0, cdig: h32(len - 32) }
        } else {
            return (out, false);
        };
        out.push(rec);
        off = end;
    }
    (out, true)
}

#[derive(Clone, Debug, PartialEq)]
struct LedEpoch {
    id: [u8; 32],
    fence: [u8; 32],
    process: [u8; 32],
    host: [u8; 32],
    start: u64,
    prev_id: Option<[u8; 32]>,
    prev_c: Option<[u8; 32]>,
    lease: [u8; 32],
    fin: Option<u64>,
    fin_c: Option<[u8; 32]>,
}

#[derive(Clone, Debug, PartialEq, Default)]
struct Led {
    closed: Vec<LedEpoch>,
    active: Option<LedEpoch>,
}

struct Cur<'a> {
    b: &'a [u8],
    o: usize,
}
impl<'a> Cur<'a> {
    fn take(&mut self, n: usize) -> Option<&'a [u8]> {
        let e = self.o.checked_add(n)?;
        if e > self.b.len() {
            return None;
        }
        let s = &self.b[self.o..e];
        self.o = e;
        Some(s)
    }
    fn h32(&mut self) -> Option<[u8; 32]> {
        self.take(32)?.try_into().ok()
    }
    fn u64(&mut self) -> Option<u64> {
        Some(u64::from_le_bytes(self.take(8)?.try_into().ok()?))
    }
    fn u8(&mut self) -> Option<u8> {
        Some(self.take(1)?[0])
    }
    fn opt_h32(&mut self) -> Option<Option<[u8; 32]>> {
        match self.u8()? {
            0 => Some(None),
            1 => Some(Some(self.h32()?)),
            _ => None,
        }
    }
    fn opt_u64(&mut self) -> Option<Option<u64>> {
        match self.u8()? {
            0 => Some(None),
            1 => Some(Some(self.u64()?)),
            _ => None,
        }
    }
}

fn ledger_digest(payload: &[u8]) -> [u8; 32] {
    let mut hh = blake3::Hasher::new();
    hh.update(b"echo:causal_wal:writer_epoch_ledger:v1\0");
    hh.update(&(payload.len() as u64).to_le_bytes());
    hh.update(payload);
    hh.finalize().into()
}

fn read_led_epoch(c: &mut Cur) -> Option<LedEpoch> {
    let id = c.h32()?;
    let fence = c.h32()?;
    let process = c.h32()?;
    let host = c.h32()?;
    let start = c.u64()?;
    let prev_id = c.opt_h32()?;
    let prev_c = c.opt_h32()?;
    let lease = c.h32()?;
    let fin = c.opt_u64()?;
    let fin_c = c.opt_h32()?;
    Some(LedEpoch { id, fence, process, host, start, prev_id, prev_c, lease, fin, fin_c })
}

/// writer-epochs.ecwal: "EWEP0001" | len | payload | digest; payload: version u16 | closed count u64 |
/// (epoch closure)* | active flag | (epoch closure)?
fn decode_ledger(bytes: &[u8]) -> Option<Led> {
    let mut c = Cur { b: bytes, o: 0 };
    if c.take(8)? != b"EWEP0001" {
        return None;
    }
    let len = c.u64()? as usize;
    let payload = c.take(len)?;
    let dig = c.h32()?;
    if c.o != bytes.len() || dig != ledger_digest(payload) {
        return None;
    }
    let mut p = Cur { b: payload, o: 0 };
    if p.take(2)? != 1u16.to_le_bytes() {
        return None;
    }
    let n = p.u64()? as usize;
    if n > 8 {
        return None;
    }
    let mut led = Led::default();
    for _ in 0..n {
        led.closed.push(read_led_epoch(&mut p)?);
    }
    match p.u8()? {
        0 => {}
        1 => led.active = Some(read_led_epoch(&mut p)?),
        _ => return None,
    }
    if p.o != payload.len() {
        return None;
    }
    Some(led)
}

fn encode_ledger(led: &Led) -> Vec<u8> {
    fn opt_h(out: &mut Vec<u8>, v: &Option<[u8; 32]>) {
        match v {
            Some(x) => {
                out.push(1);
                out.extend_from_slice(x);
            }
            None => out.push(0),
        }
    }
    fn ep(out: &mut Vec<u8>, e: &LedEpoch) {
        out.extend_from_slice(&e.id);
        out.extend_from_slice(&e.fence);
        out.extend_from_slice(&e.process);
        out.extend_from_slice(&e.host);
        out.extend_from_slice(&e.start.to_le_bytes());
        opt_h(out, &e.prev_id);
        opt_h(out, &e.prev_c);
        out.extend_from_slice(&e.lease);
        match e.fin {
            Some(x) => {
                out.push(1);
                out.extend_from_slice(&x.to_le_bytes());
            }
            None => out.push(0),
        }
        opt_h(out, &e.fin_c);
    }
    let mut payload = Vec::new();
    payload.extend_from_slice(&1u16.to_le_bytes());
    payload.extend_from_slice(&(led.closed.len() as u64).to_le_bytes());
    for e in &led.closed {
        ep(&mut payload, e);
    }
    match &led.active {
        Some(e) => {
            payload.push(1);
            ep(&mut payload, e);
        }
        None => payload.push(0),
    }
    let mut out = Vec::new();
    out.extend_from_slice(b"EWEP0001");
    out.extend_from_slice(&(payload.len() as u64).to_le_bytes());
    out.extend_from_slice(&payload);
    out.extend_from_slice(&ledger_digest(&payload));
    out
}

#[derive(Clone, Debug, PartialEq)]
struct Man {
    tag: [u8; 32],
    last_lsn: Option<u64>,
    last_c: Option<[u8; 32]>,
    count: u64,
}

/// manifest.ecwal: manifest_digest(32) | opt lsn | opt hash | sealed_segment_count u64
fn decode_manifest(bytes: &[u8]) -> Option<Man> {
    let mut c = Cur { b: bytes, o: 0 };
    let tag = c.h32()?;
    let last_lsn = c.opt_u64()?;
    let last_c = c.opt_h32()?;
    let count = c.u64()?;
    if c.o != bytes.len() {
        return None;
    }
    Some(Man { tag, last_lsn, last_c, count })
}

fn encode_manifest(m: &Man) -> Vec<u8> {
    let mut out = m.tag.to_vec();
    match m.last_lsn {
        Some(x) => {
            out.push(1);
            out.extend_from_slice(&x.to_le_bytes());
        }
        None => out.push(0),
    }
    match &m.last_c {
        Some(x) => {
            out.push(1);
            out.extend_from_slice(x);
        }
        None => out.push(0),
    }
    out.extend_from_slice(&m.count.to_le_bytes());
    out
}

// --------------------------------------------------------------------------- directory images

#[derive(Clone, Debug)]
struct FileImg {
    id: u64,
    root: bool,
    bytes: Vec<u8>,
}

#[derive(Clone, Debug)]
struct DirImg {
    files: Vec<FileImg>,
    ledger: Option<Vec<u8>>,
    manifest: Option<Vec<u8>>,
}

fn seg_name(id: u64) -> String {
    format!("segment-{id:020}.ecwal")
}

fn materialise_img(dir: &Path, img: &DirImg) {
    let _ = fs::remove_dir_all(dir);
    fs::create_dir_all(dir.join("segments")).expect("scratch dir");
    for f in &img.files {
        let p = if f.root { dir.join(seg_name(f.id)) } else { canonical_segment_path(dir, WalSegmentId::from_raw(f.id)) };
        fs::write(p, &f.bytes).expect("segment written");
    }
    if let Some(l) = &img.ledger {
        fs::write(dir.join("writer-epochs.ecwal"), l).expect("ledger written");
    }
    if let Some(m) = &img.manifest {
        fs::write(dir.join("manifest.ecwal"), m).expect("manifest written");
    }
    fs::write(dir.join("writer-epoch.lock"), b"").expect("lock file");
}

fn read_img(dir: &Path) -> DirImg {
    let mut files = Vec::new();
    for (sub, root) in [(dir.join("segments"), false), (dir.to_path_buf(), true)] {
        if let Ok(rd) = fs::read_dir(&sub) {
            for e in rd.flatten() {
                let name = e.file_name().to_string_lossy().to_string();
                if let Some(rest) = name.strip_prefix("segment-") {
                    if let Some(d) = rest.strip_suffix(".ecwal") {
                        if let Ok(id) = d.parse::<u64>() {
                            files.push(FileImg { id, root, bytes: fs::read(e.path()).unwrap_or_default() });
                        }
                    }
                }
            }
        }
    }
    files.sort_by_key(|f| (f.id, f.root));
    DirImg { files, ledger: fs::read(dir.join("writer-epochs.ecwal")).ok(), manifest: fs::read(dir.join("manifest.ecwal")).ok() }
}

fn snapshot(dir: &Path) -> Vec<(String, String)> {
    let mut out = Vec::new();
    let mut stack = vec![dir.to_path_buf()];
    while let Some(d) = stack.pop() {
        if let Ok(rd) = fs::read_dir(&d) {
            for e in rd.flatten() {
                let p = e.path();
                if p.is_dir() {
                    stack.push(p);
                } else {
                    out.push((p.strip_prefix(dir).unwrap_or(&p).display().to_string(), h(&fs::read(&p).unwrap_or_default())));
                }
            }
        }
    }
    out.sort();
    out
}

// --------------------------------------------------------------------------- real logs

struct SegLog {
    name: String,
    family: &'static str,
    img: DirImg,
    /// parsed records per segment file (index = segment id - 1)
    recs: Vec<Vec<Rec>>,
    /// identity + content digest of every committed transaction, in order
    committed: Vec<String>,
    /// writer-epoch evidence handed to the projection (family S)
    epochs: Vec<WalWriterEpoch>,
    /// strict view fingerprint of the writing host after k commits (family H)
    fps: Vec<String>,
    ids: Vec<Hash>,
    active_seg: u64,
}

fn dg(label: &str) -> Hash {
    blake3::hash(label.as_bytes()).into()
}

fn tx_digests(report: &RecoveryScanReport) -> Vec<String> {
    report
        .transactions
        .iter()
        .map(|t| format!("{}:{}", &hash_hex(&t.commit.transaction_id.as_hash())[..12], h(format!("{t:?}").as_bytes())))
        .collect()
}

fn epoch_label(flavor: &str, ordinal: usize) -> String {
    // A and C share both epoch ids; B is a stranger; H shares the first epoch only
    let home = match flavor {
        "A" | "C" => true,
        "H" => ordinal == 1,
        _ => false,
    };
    format!("c11s:{}-{ordinal}", if home { "home" } else { "foreign" })
}

fn epoch_request(label: &str, start: u64, prev: Option<(WriterEpochId, Option<Hash>)>) -> WriterEpochRequest {
    WriterEpochRequest {
        epoch_id: WriterEpochId::from_hash(dg(&format!("{label}:epoch"))),
        storage_fencing_token: dg(&format!("{label}:fence")),
        process_identity: dg(&format!("{label}:process")),
        host_identity: dg("c11s:host"),
        started_at_lsn: Lsn::from_raw(start),
        previous_epoch_id: prev.map(|p| p.0),
        previous_epoch_final_commit_digest: prev.and_then(|p| p.1),
        lease_or_lock_evidence: dg(&format!("{label}:lock")),
    }
}

/// Family S: the model's scripted writer on a real FilesystemWalStore.
fn build_store_log(flavor: &str, layout: &[usize], eos: &[usize], dir: &Path) -> Result<SegLog, String> {
    let _ = fs::remove_dir_all(dir);
    let e = |x: warp_core::causal_wal::WalStoreError| format!("{flavor}: {x:?}");
    let mut store = FilesystemWalStore::open(dir, WalSegmentId::from_raw(1)).map_err(e)?;
    let mut epochs: Vec<WriterEpoch> = Vec::new();
    let mut next_lsn = 0u64;
    let mut prev_frame: Hash = [0; 32];
    let mut prev_commit: Hash = [0; 32];
    let mut last_commit: Option<(u64, Hash)> = None;
    let mut txn = 0usize;
    for s in 1..=layout.len() {
        if s == 1 {
            epochs.push(store.acquire_writer_epoch(epoch_request(&epoch_label(flavor, eos[0]), 0, None)).map_err(e)?);
        } else {
            let cur = epochs.last().ok_or("no epoch")?.epoch_id;
            store.rotate_segment(cur).map_err(e)?;
            if eos[s - 1] != eos[s - 2] {
                store.close_epoch(cur).map_err(e)?;
                drop(store);
                store = FilesystemWalStore::open(dir, WalSegmentId::from_raw(s as u64)).map_err(e)?;
                let req = epoch_request(&epoch_label(flavor, eos[s - 1]), next_lsn, Some((cur, last_commit.map(|c| c.1))));
                epochs.push(store.acquire_writer_epoch(req).map_err(e)?);
            }
        }
        let epoch_id = epochs.last().ok_or("no epoch")?.epoch_id;
        for _ in 0..layout[s - 1] {
            txn += 1;
            let label = format!("c11s:{flavor}:{txn}");
            let builder = WalTransactionBuilder::new(
                epoch_id,
                WalSegmentId::from_raw(s as u64),
                WalTransactionId::from_hash(dg(&format!("{label}:tx"))),
                WalTransactionKind::SubmissionIntake,
                WalAppendAuthority::SubmissionIntake,
                Lsn::from_raw(next_lsn),
                prev_frame,
                prev_commit,
                WalDurabilityMode::StrictFilesystem,
                PayloadCodecId::from_hash(dg("c11s:codec")),
                PayloadSchemaId::from_hash(dg("c11s:schema")),
                1,
                1,
                dg("c11s:domain"),
            );
            let record = SubmissionAcceptanceRecord {
                submission_id: dg(&format!("{label}:submission")),
                canonical_envelope_digest: dg(&format!("{label}:envelope")),
                idempotency_key_digest: None,
                acceptance_evidence_digest: dg(&format!("{label}:acceptance")),
            };
            let material = WalSubmissionEnvelopeRecord {
                submission_id: record.submission_id,
                canonical_envelope_digest: record.canonical_envelope_digest,
                submission_generation: txn as u64,
                head_key: WriterHeadKey { worldline_id: WorldlineId::from_bytes([7; 32]), head_id: make_head_id("c11s") },
                retained_envelope_bytes: format!("{label}:payload").into_bytes(),
            };
            let tx = build_submission_acceptance_with_material_transaction(
                builder,
                record,
                material,
                vec![AffectedFrontier {
                    kind: AffectedFrontierKind::SubmissionQueue,
                    before_digest: dg(&format!("c11s:{flavor}:frontier:{}", txn - 1)),
                    after_digest: dg(&format!("c11s:{flavor}:frontier:{txn}")),
                }],
            )
            .map_err(|x| format!("{flavor}: build: {x:?}"))?;
            if tx.frames.len() != 3 {
                return Err(format!("{flavor}: a submission-with-material transaction has {} frames, expected 3", tx.frames.len()));
            }
            prev_frame = tx.frames.last().ok_or("frames")?.digest();
            prev_commit = tx.commit.commit_digest;
            next_lsn = tx.commit.last_lsn.as_u64() + 1;
            last_commit = Some((tx.commit.last_lsn.as_u64(), tx.commit.commit_digest));
            store.append_transaction(tx).map_err(e)?;
        }
    }
    let cur = epochs.last().ok_or("no epoch")?.epoch_id;
    store
        .publish_manifest(
            cur,
            WalManifest {
                manifest_digest: dg("c11s:manifest"),
                last_committed_lsn: last_commit.map(|c| Lsn::from_raw(c.0)),
                last_commit_digest: last_commit.map(|c| c.1),
                sealed_segment_count: layout.len() as u64,
            },
        )
        .map_err(e)?;
    drop(store);
    finish_log(flavor, "S", dir, layout, epochs.iter().map(WalWriterEpoch::from_writer_epoch).collect(), Vec::new(), Vec::new())
}

fn finish_log(
    name: &str,
    family: &'static str,
    dir: &Path,
    layout: &[usize],
    epochs: Vec<WalWriterEpoch>,
    fps: Vec<String>,
    ids: Vec<Hash>,
) -> Result<SegLog, String> {
    let img = read_img(dir);
    if img.files.len() != layout.len() || img.files.iter().enumerate().any(|(i, f)| f.id != i as u64 + 1 || f.root) {
        return Err(format!("{name}: expected {} segment files, found {:?}", layout.len(), img.files.iter().map(|f| f.id).collect::<Vec<_>>()));
    }
    let mut recs = Vec::new();
    for (i, f) in img.files.iter().enumerate() {
        let (r, whole) = parse_file(&f.bytes);
        if !whole || r.len() != layout[i] * 4 {
            return Err(format!("{name}: segment {} has {} records (whole={whole}), the model's shape needs {}", i + 1, r.len(), layout[i] * 4));
        }
        recs.push(r);
    }
    let ledger = img.ledger.as_ref().ok_or("no ledger")?;
    let led = decode_ledger(ledger).ok_or_else(|| format!("{name}: the independent ledger decoder rejects the pristine ledger"))?;
    if &encode_ledger(&led) != ledger {
        return Err(format!("{name}: ledger encoder does not round-trip"));
    }
    if led.closed.len() != 1 || led.active.is_none() {
        return Err(format!("{name}: ledger shape {} closed / active {}", led.closed.len(), led.active.is_some()));
    }
    let man = img.manifest.as_ref().ok_or("no manifest")?;
    let m = decode_manifest(man).ok_or_else(|| format!("{name}: manifest decoder rejects the pristine manifest"))?;
    if &encode_manifest(&m) != man {
        return Err(format!("{name}: manifest encoder does not round-trip"));
    }
    let rep = recover_filesystem_store(dir, RecoveryAccessMode::ReadOnly).map_err(|x| format!("{name}: pristine log does not recover: {x:?}"))?;
    let committed = tx_digests(&rep);
    if committed.len() != layout.iter().sum::<usize>() {
        return Err(format!("{name}: {} transactions recovered from the pristine log", committed.len()));
    }
    Ok(SegLog { name: name.to_string(), family, img, recs, committed, epochs, fps, ids, active_seg: layout.len() as u64 })
}

/// Family H: two host sessions (two writer epochs), single segment file split at commit boundaries.
fn build_host_log(name: &str, salt: &str, layout: &[usize], eos: &[usize], dir: &Path) -> Result<SegLog, String> {
    let nt: usize = layout.iter().sum();
    let n1: usize = layout.iter().zip(eos.iter()).filter(|(_, e)| **e == eos[0]).map(|(n, _)| *n).sum();
    if eos.iter().any(|e| *e != 1 && *e != 2) || eos.windows(2).any(|w| w[1] < w[0]) || n1 == nt {
        return Err("family H needs exactly two consecutive epochs".into());
    }
    let wk_all = Workload { n: nt, wl: vec![0; nt], ops: (0..nt).map(Op::Submit).collect(), salt: salt.to_string() };
    let wk_a = Workload { ops: (0..n1).map(Op::Submit).collect(), ..wk_all.clone() };
    // dry run for the (deterministic) submission ids
    let _ = fs::remove_dir_all(dir);
    let mut host = open_host(dir)?;
    host.register_contract_package(package()).map_err(|e| format!("{e:?}"))?;
    let mut sim = Sim { host, dir: dir.to_path_buf(), ids: vec![None; nt], staged: BTreeSet::new() };
    for op in &wk_all.ops {
        let o = sim.apply(&wk_all, op);
        if o.res == "err" {
            return Err(format!("{name}: {op:?}: {}", o.detail));
        }
    }
    let ids: Vec<Hash> = sim.ids.iter().map(|x| x.ok_or("id")).collect::<Result<_, _>>()?;
    drop(sim);
    let _ = fs::remove_dir_all(dir);
    // session 1 = writer epoch 1
    let mut host = open_host(dir)?;
    host.register_contract_package(package()).map_err(|e| format!("{e:?}"))?;
    let sim = Sim { host, dir: dir.to_path_buf(), ids: vec![None; nt], staged: BTreeSet::new() };
    let (log_a, sim) = run_ops(sim, &wk_a, &ids, 0, None)?;
    drop(sim);
    // session 2 = writer epoch 2 (acquire_fresh_writer_epoch closes epoch 1)
    let mut host = open_host(dir)?;
    host.register_contract_package(package()).map_err(|e| format!("{e:?}"))?;
    let sim = Sim { host, dir: dir.to_path_buf(), ids: log_a.ids.clone(), staged: BTreeSet::new() };
    let (log_b, sim) = run_ops(sim, &wk_all, &ids, n1, None)?;
    drop(sim);
    let mut fps: Vec<String> = log_a.views.iter().map(|v| v.fp.clone()).collect();
    fps.extend(log_b.views.iter().skip(1).map(|v| v.fp.clone()));
    if fps.len() != nt + 1 || log_b.views.first().map(|v| &v.fp) != fps.get(n1) {
        return Err(format!("{name}: {} views for {nt} commits / the reopened host does not show the view of its predecessor", fps.len()));
    }
    let seg = read_segment(dir);
    let ledger = read_ledger(dir).ok_or("no ledger")?;
    let (recs, whole) = parse_file(&seg);
    if !whole || recs.len() != nt * 4 {
        return Err(format!("{name}: host log has {} records, the model's shape needs {}", recs.len(), nt * 4));
    }
    // split at commit boundaries into the model's segment files
    let mut files = Vec::new();
    let mut r0 = 0usize;
    for (i, n) in layout.iter().enumerate() {
        let r1 = r0 + n * 4;
        files.push(FileImg { id: i as u64 + 1, root: false, bytes: seg[recs[r0].start..recs[r1 - 1].end].to_vec() });
        r0 = r1;
    }
    let last = recs.last().ok_or("empty")?;
    let man = Man { tag: [9; 32], last_lsn: Some(last.lsn), last_c: Some(last.cdig), count: layout.len() as u64 };
    let img = DirImg { files, ledger: Some(ledger), manifest: Some(encode_manifest(&man)) };
    materialise_img(dir, &img);
    let log = finish_log(name, "H", dir, layout, Vec::new(), fps, ids)?;
    let _ = fs::remove_dir_all(dir);
    Ok(log)
}

// --------------------------------------------------------------------------- edits on real bytes

fn region_range(r: &Rec, region: &str) -> (usize, usize) {
    match region {
        "magic" | "magic_zero" => (r.start, r.start + 8),
        "kind" => (r.start + 8, r.start + 9),
        "len_big" | "len_small" => (r.start + 9, r.start + 17),
        "payload" => (r.start + 17, r.end - 32),
        _ => (r.end - 32, r.end),
    }
}

fn cat(parts: &[&[u8]]) -> Vec<u8> {
    let mut v = Vec::new();
    for p in parts {
        v.extend_from_slice(p);
    }
    v
}

/// Applies one model edit (MC_C11s `e`) to the real files of log a.
fn apply_edit(a: &SegLog, others: &BTreeMap<String, SegLog>, e: &Value, rng: &mut StdRng) -> Result<(DirImg, String), String> {
    let k = e["k"].as_str().ok_or("k")?;
    let s = e["s"].as_u64().unwrap_or(0) as usize;
    let i = e["i"].as_u64().unwrap_or(0) as usize;
    let t = e["t"].as_u64().unwrap_or(0) as usize;
    let region = e["region"].as_str().unwrap_or("-");
    let src = e["src"].as_str().unwrap_or("-");
    let v = e["v"].as_str().unwrap_or("-");
    let ns = a.img.files.len();
    let mut img = a.img.clone();
    let other = || others.get(src).ok_or_else(|| format!("no log {src}"));
    let seg = |s: usize| -> Result<(&Vec<u8>, &Vec<Rec>), String> {
        if s >= 1 && s <= ns {
            Ok((&a.img.files[s - 1].bytes, &a.recs[s - 1]))
        } else {
            Err(format!("segment {s} out of range"))
        }
    };
    let rec = |s: usize, ix: usize| -> Result<&Rec, String> { seg(s)?.1.get(ix.wrapping_sub(1)).ok_or(format!("record {ix} of segment {s} out of range")) };
    // transaction number (1-based, global) of a record position
    let tx_of = |s: usize, ix: usize| -> usize { a.recs[..s - 1].iter().map(|r| r.len() / 4).sum::<usize>() + (ix - 1) / 4 + 1 };
    let mut led = a.img.ledger.as_ref().and_then(|l| decode_ledger(l)).ok_or("ledger")?;
    let mut man = a.img.manifest.as_ref().and_then(|m| decode_manifest(m)).ok_or("manifest")?;
    let all: Vec<&Rec> = a.recs.iter().flatten().collect();
    let commits: Vec<&Rec> = all.iter().copied().filter(|r| r.kind == 2).collect();
    let prev_commit = commits.get(commits.len().wrapping_sub(2)).copied().ok_or("fewer than two commits")?;
    let what: String;
    match k {
        "intact" => what = "nothing".into(),
        "damage" => {
            let (bytes, _) = seg(s)?;
            let r = rec(s, i)?;
            let (lo, hi) = region_range(r, region);
            let mut b = bytes.clone();
            match region {
                "magic_zero" => {
                    b[lo..hi].iter_mut().for_each(|x| *x = 0);
                    what = format!("8 magic bytes of record {i} of segment {s} zeroed");
                }
                "len_big" => {
                    b[lo + 3] ^= 0x40;
                    what = format!("length byte 3 bit 6 of record {i} of segment {s}");
                }
                "len_small" => {
                    let mut done = false;
                    for byte in (lo..hi).rev() {
                        if b[byte] != 0 {
                            let bit = 7 - b[byte].leading_zeros() as u8;
                            b[byte] ^= 1 << bit;
                            done = true;
                            break;
                        }
                    }
                    if !done {
                        return Err("zero length".into());
                    }
                    what = format!("highest length bit of record {i} of segment {s}");
                }
                _ => {
                    let pos = rng.gen_range(lo..hi);
                    let bit = rng.gen_range(0..8);
                    b[pos] ^= 1 << bit;
                    what = format!("bit {bit} of byte {pos} ({region} of record {i}) of segment {s}");
                }
            }
            img.files[s - 1].bytes = b;
        }
        "truncate" => {
            let (bytes, recs) = seg(s)?;
            let whole = i / 2;
            let mut cut = if whole == 0 { 0 } else { recs[whole - 1].end };
            if i % 2 == 1 {
                let r = &recs[whole];
                cut = rng.gen_range(r.start + 1..r.end);
            }
            img.files[s - 1].bytes = bytes[..cut].to_vec();
            what = format!("segment {s} cut at byte {cut} of {}", bytes.len());
        }
        "delete" => {
            let (bytes, _) = seg(s)?;
            let r = rec(s, i)?;
            img.files[s - 1].bytes = cat(&[&bytes[..r.start], &bytes[r.end..]]);
            what = format!("record {i} of segment {s} removed");
        }
        "dup_commit_fwd" | "dup_commit_end" => {
            let (bytes, recs) = seg(s)?;
            let r = recs.last().ok_or("empty segment")?;
            let copy = &bytes[r.start..r.end];
            if k == "dup_commit_fwd" {
                img.files[s].bytes = cat(&[copy, &a.img.files[s].bytes]);
                what = format!("copy of the last commit marker of segment {s} at the front of segment {}", s + 1);
            } else {
                img.files[ns - 1].bytes = cat(&[&a.img.files[ns - 1].bytes, copy]);
                what = format!("copy of the last commit marker of segment {s} at the end of segment {ns}");
            }
        }
        "move_fwd" | "move_back" | "move_tx_fwd" | "move_tx_back" => {
            let (ab, ar) = seg(s)?;
            let (bb, br) = seg(s + 1)?;
            match k {
                "move_fwd" => {
                    let r = ar.last().ok_or("empty")?;
                    img.files[s - 1].bytes = ab[..r.start].to_vec();
                    img.files[s].bytes = cat(&[&ab[r.start..r.end], bb]);
                }
                "move_back" => {
                    let r = br.first().ok_or("empty")?;
                    img.files[s - 1].bytes = cat(&[ab, &bb[r.start..r.end]]);
                    img.files[s].bytes = bb[r.end..].to_vec();
                }
                "move_tx_fwd" => {
                    let f = &ar[ar.len() - 4];
                    img.files[s - 1].bytes = ab[..f.start].to_vec();
                    img.files[s].bytes = cat(&[&ab[f.start..], bb]);
                }
                _ => {
                    let l = &br[3];
                    img.files[s - 1].bytes = cat(&[ab, &bb[..l.end]]);
                    img.files[s].bytes = bb[l.end..].to_vec();
                }
            }
            what = format!("{k} across the boundary of segments {s}/{}", s + 1);
        }
        "delete_segment" => {
            img.files.remove(s - 1);
            what = format!("segment file {s} removed");
        }
        "delete_segment_renumber" => {
            img.files.remove(s - 1);
            for (j, f) in img.files.iter_mut().enumerate() {
                f.id = j as u64 + 1;
            }
            what = format!("segment file {s} removed, later files renamed down");
        }
        "duplicate_segment" => {
            let mut f = a.img.files[s - 1].clone();
            f.id = ns as u64 + 1;
            img.files.push(f);
            what = format!("copy of segment file {s} as segment {}", ns + 1);
        }
        "duplicate_segment_root" => {
            let mut f = a.img.files[s - 1].clone();
            f.root = true;
            img.files.push(f);
            what = format!("copy of segment file {s} under the WAL root (same id)");
        }
        "swap_segments" => {
            img.files[s - 1].bytes = a.img.files[i - 1].bytes.clone();
            img.files[i - 1].bytes = a.img.files[s - 1].bytes.clone();
            what = format!("contents of segment files {s} and {i} exchanged");
        }
        "append_empty_segment" => {
            img.files.push(FileImg { id: ns as u64 + 1, root: false, bytes: Vec::new() });
            what = format!("empty segment file {} added", ns + 1);
        }
        "replace_segment" => {
            img.files[s - 1].bytes = other()?.img.files[s - 1].bytes.clone();
            what = format!("segment file {s} replaced by log {src}'s");
        }
        "delete_tx" | "transplant_tx" => {
            // transaction t = records 4(t'-1)+1 .. 4t' of its segment
            let mut base = 0usize;
            for sx in 1..=ns {
                let n = a.recs[sx - 1].len() / 4;
                if t > base && t <= base + n {
                    let lt = t - base;
                    let (bytes, recs) = seg(sx)?;
                    let (f, l) = (&recs[4 * (lt - 1)], &recs[4 * lt - 1]);
                    debug_assert_eq!(tx_of(sx, 4 * lt), t);
                    let mid: Vec<u8> = if k == "transplant_tx" {
                        let o = other()?;
                        o.img.files[sx - 1].bytes[o.recs[sx - 1][4 * (lt - 1)].start..o.recs[sx - 1][4 * lt - 1].end].to_vec()
                    } else {
                        Vec::new()
                    };
                    img.files[sx - 1].bytes = cat(&[&bytes[..f.start], &mid, &bytes[l.end..]]);
                }
                base += n;
            }
            what = format!("transaction {t} {}", if k == "delete_tx" { "removed".to_string() } else { format!("replaced by log {src}'s") });
        }
        "man_count" => {
            man.count = i as u64;
            what = format!("manifest sealed_segment_count {} -> {i}", ns);
        }
        "man_fin" => {
            man.last_lsn = if i == 0 { None } else { Some(i as u64 - 1) };
            what = format!("manifest last_committed_lsn -> {:?}", man.last_lsn);
        }
        "man_lastc" => {
            man.last_c = Some(if v == "prev" { prev_commit.cdig } else { [0x5a; 32] });
            what = format!("manifest last_commit_digest -> {v}");
        }
        "man_prev_commit" => {
            man.last_lsn = Some(prev_commit.lsn);
            man.last_c = Some(prev_commit.cdig);
            what = "manifest names the previous commit (stale manifest)".into();
        }
        "man_tag" => {
            man.tag = [0x33; 32];
            what = "manifest_digest replaced".into();
        }
        "man_deleted" => what = "manifest.ecwal removed".into(),
        "man_from" => what = format!("manifest.ecwal of log {src}"),
        "led_deleted" => what = "writer-epochs.ecwal removed".into(),
        "led_from" => what = format!("writer-epochs.ecwal of log {src}"),
        "led_drop_active" => {
            led.active = None;
            what = "ledger: active epoch dropped".into();
        }
        "led_drop_closed" => {
            led.closed.clear();
            what = "ledger: closed epoch dropped".into();
        }
        "led_swap" => {
            let cl = led.closed.pop();
            let ac = led.active.take();
            led.closed = ac.into_iter().collect();
            led.active = cl;
            what = "ledger: closed and active epoch exchanged".into();
        }
        "led_closed_start" => {
            led.closed[0].start = i as u64;
            what = format!("ledger: closed epoch started_at_lsn -> {i}");
        }
        "led_active_start" => {
            led.active.as_mut().ok_or("active")?.start = i as u64;
            what = format!("ledger: active epoch started_at_lsn -> {i}");
        }
        "led_closed_id" => {
            led.closed[0].id = [0x77; 32];
            what = "ledger: closed epoch id replaced".into();
        }
        "led_active_id" => {
            led.active.as_mut().ok_or("active")?.id = [0x77; 32];
            what = "ledger: active epoch id replaced".into();
        }
        "led_closed_fin" => {
            led.closed[0].fin = if i == 0 { None } else { Some(i as u64 - 1) };
            what = format!("ledger: closed epoch final_lsn -> {:?}", led.closed[0].fin);
        }
        "led_closed_finc" => {
            led.closed[0].fin_c = Some([0x5a; 32]);
            what = "ledger: closed epoch final_commit_digest replaced".into();
        }
        "led_active_prevc" => {
            led.active.as_mut().ok_or("active")?.prev_c = Some([0x5a; 32]);
            what = "ledger: active epoch previous_epoch_final_commit_digest replaced".into();
        }
        "led_active_previd" => {
            led.active.as_mut().ok_or("active")?.prev_id = if i == 0 { None } else { Some([0x77; 32]) };
            what = format!("ledger: active epoch previous_epoch_id -> {}", if i == 0 { "None" } else { "stranger" });
        }
        "led_active_half_closure" => {
            led.active.as_mut().ok_or("active")?.fin_c = None;
            what = "ledger: active closure keeps final_lsn, loses final_commit_digest".into();
        }
        "led_older" => {
            let ac = led.active.as_mut().ok_or("active")?;
            ac.fin = None;
            ac.fin_c = None;
            what = "ledger: version before the active epoch's commits were recorded".into();
        }
        other => return Err(format!("unknown edit {other}")),
    }
    if k.starts_with("man_") {
        img.manifest = match k {
            "man_deleted" => None,
            "man_from" => other()?.img.manifest.clone(),
            _ => Some(encode_manifest(&man)),
        };
    }
    if k.starts_with("led_") {
        img.ledger = match k {
            "led_deleted" => None,
            "led_from" => other()?.img.ledger.clone(),
            _ => Some(encode_ledger(&led)),
        };
    }
    Ok((img, what))
}

// --------------------------------------------------------------------------- evaluation

fn is_prefix(hh: &[String], committed: &[String]) -> bool {
    hh.len() <= committed.len() && hh.iter().zip(committed.iter()).all(|(a, b)| a == b)
}

fn class_of(o: &Value, committed: &[String]) -> String {
    match o["class"].as_str().unwrap_or("err") {
        "ok" => {
            let hh: Vec<String> = o["h"].as_array().map(|a| a.iter().filter_map(|x| x.as_str().map(String::from)).collect()).unwrap_or_default();
            if is_prefix(&hh, committed) { "prefix".into() } else { "nonprefix".into() }
        }
        c => c.to_string(),
    }
}

fn short<T: std::fmt::Debug>(e: &T) -> String {
    format!("{e:?}").chars().take(160).collect()
}

fn scan_outcome<E: std::fmt::Debug>(r: &Result<Result<RecoveryScanReport, E>, String>) -> Value {
    match r {
        Ok(Ok(rep)) => json!({"class": "ok", "h": tx_digests(rep), "tail": format!("{:?}", rep.tail_posture)}),
        Ok(Err(e)) => json!({"class": "err", "h": [], "err": short(e)}),
        Err(p) => json!({"class": "panic", "h": [], "err": p}),
    }
}

/// What recovery got to read: per file the records up to the first unreadable one.
fn readable(img: &DirImg) -> Vec<Rec> {
    let mut files: Vec<&FileImg> = img.files.iter().collect();
    files.sort_by_key(|f| (f.id, f.root));
    files.iter().flat_map(|f| parse_file(&f.bytes).0).collect()
}

/// The edit's effect on the readable record set, in the vocabulary of finding F13.
fn effect(a: &SegLog, img: &DirImg) -> &'static str {
    let key = |r: &Rec| (r.kind, r.tx, r.lsn);
    let mut pristine: BTreeMap<(u8, [u8; 32], u64), i64> = BTreeMap::new();
    for r in a.recs.iter().flatten() {
        *pristine.entry(key(r)).or_default() += 1;
    }
    let txs: BTreeSet<[u8; 32]> = a.recs.iter().flatten().map(|r| r.tx).collect();
    let mut diff = pristine.clone();
    let mut foreign = false;
    for r in readable(img) {
        if !txs.contains(&r.tx) {
            foreign = true;
        }
        *diff.entry(key(&r)).or_default() -= 1;
    }
    let missing: Vec<_> = diff.iter().filter(|(_, n)| **n > 0).map(|(k, _)| *k).collect();
    let extra: Vec<_> = diff.iter().filter(|(_, n)| **n < 0).map(|(k, _)| *k).collect();
    if foreign {
        return "transplant_transaction";
    }
    if missing.is_empty() && extra.is_empty() {
        return "none";
    }
    if missing.is_empty() {
        return if extra.iter().all(|k| k.0 == 2) { "duplicate_commit_marker" } else { "other" };
    }
    if !extra.is_empty() {
        return "other";
    }
    if missing.iter().all(|k| k.0 == 2) {
        return "delete_commit_marker";
    }
    // whole transactions: every record of each affected transaction is missing
    let gone: BTreeSet<[u8; 32]> = missing.iter().map(|k| k.1).collect();
    let whole = gone.iter().all(|t| pristine.keys().filter(|k| k.1 == *t).all(|k| missing.contains(k)));
    if whole { "delete_transaction" } else { "other" }
}

struct Verdict {
    bad: Vec<(String, String)>,
}
impl Verdict {
    fn push(&mut self, entry: &str, why: String) {
        self.bad.push((entry.to_string(), why));
    }
}

/// Runs every entry point on one edited directory and decides the property on the real outcome.
fn evaluate(a: &SegLog, img: &DirImg, dir: &Path) -> (Value, Verdict) {
    let mut ev = json!({});
    let mut vd = Verdict { bad: Vec::new() };
    materialise_img(dir, img);
    let snap0 = snapshot(dir);
    // ---- read-only entry points
    let fs_r = catch(|| recover_filesystem_store(dir, RecoveryAccessMode::ReadOnly));
    ev["fs"] = scan_outcome(&fs_r);
    let fs_class = class_of(&ev["fs"], &a.committed);
    let fs_h: Vec<String> = ev["fs"]["h"].as_array().map(|x| x.iter().filter_map(|s| s.as_str().map(String::from)).collect()).unwrap_or_default();
    if fs_class == "nonprefix" || fs_class == "panic" {
        vd.push("recover_filesystem_store", format!("ReadOnly: {fs_class}: {} transactions {:?}", fs_h.len(), ev["fs"].get("err")));
    }
    ev["doctor"] = match catch(|| doctor_filesystem_store(dir)) {
        Ok(Ok(d)) => json!({"class": if d.posture == WalDoctorPosture::Obstructed { "err" } else { "ok" },
            "n": d.recovery_certificate.committed_transactions_replayed, "posture": format!("{:?}", d.posture),
            "first": d.recovery_certificate.first_lsn.map(|l| l.as_u64()), "last": d.recovery_certificate.last_lsn.map(|l| l.as_u64())}),
        Ok(Err(e)) => json!({"class": "err", "n": 0, "posture": short(&e)}),
        Err(p) => json!({"class": "panic", "n": 0, "posture": p}),
    };
    match ev["doctor"]["class"].as_str() {
        Some("ok") => {
            let n = ev["doctor"]["n"].as_u64().unwrap_or(0) as usize;
            if fs_class != "prefix" || n != fs_h.len() {
                vd.push("doctor_filesystem_store", format!("posture {} with {n} transactions while recovery is {fs_class} with {}", ev["doctor"]["posture"], fs_h.len()));
            }
        }
        Some("panic") => vd.push("doctor_filesystem_store", "panic".into()),
        _ => {}
    }
    // independent view of the files present
    let present = readable(img);
    let last_commit = present.iter().filter(|r| r.kind == 2).max_by_key(|r| r.lsn);
    ev["manifest"] = match catch(|| validate_filesystem_manifest(dir)) {
        Ok(Ok(rep)) => {
            let describes = rep.manifest.sealed_segment_count == img.files.len() as u64
                && rep.manifest.last_committed_lsn.map(|l| l.as_u64()) == last_commit.map(|r| r.lsn)
                && rep.manifest.last_commit_digest == last_commit.map(|r| r.cdig);
            if !describes {
                vd.push(
                    "validate_filesystem_manifest",
                    format!(
                        "accepted a manifest (count {}, last lsn {:?}) that does not describe the {} segment files present (last commit lsn {:?})",
                        rep.manifest.sealed_segment_count,
                        rep.manifest.last_committed_lsn.map(|l| l.as_u64()),
                        img.files.len(),
                        last_commit.map(|r| r.lsn)
                    ),
                );
            }
            json!({"class": "ok", "describes": describes, "count": rep.manifest.sealed_segment_count})
        }
        Ok(Err(e)) => json!({"class": "err", "err": short(&e)}),
        Err(p) => {
            vd.push("validate_filesystem_manifest", "panic".into());
            json!({"class": "panic", "err": p})
        }
    };
    ev["proj"] = match &fs_r {
        Ok(Ok(report)) if a.family == "S" => match catch(|| project_filesystem_wal_recovery(dir, report, &a.epochs, None)) {
            Ok(p) => match p.posture {
                WalRecoveryProjectionPosture::Present => {
                    let root = p.root.as_ref();
                    let mut anchors = Vec::new();
                    let mut layout_ok = true;
                    let mut segs = Vec::new();
                    for sref in root.map(|r| r.segments.as_slice()).unwrap_or_default() {
                        let sid = sref.segment_id.as_u64();
                        let want: Vec<([u8; 32], u64)> = report
                            .transactions
                            .iter()
                            .filter(|t| sref.commit_anchors.iter().any(|an| an.transaction_id == t.commit.transaction_id))
                            .flat_map(|t| t.frames.iter().map(|f| (f.header.transaction_id.as_hash(), f.header.lsn.as_u64())))
                            .collect();
                        let have: Vec<([u8; 32], u64)> = img
                            .files
                            .iter()
                            .filter(|f| f.id == sid && !f.root)
                            .flat_map(|f| parse_file(&f.bytes).0)
                            .filter(|r| r.kind == 1)
                            .map(|r| (r.tx, r.lsn))
                            .collect();
                        if want != have
                            || Some(sref.first_lsn.as_u64()) != have.iter().map(|x| x.1).min()
                            || Some(sref.last_lsn.as_u64()) != have.iter().map(|x| x.1).max()
                        {
                            layout_ok = false;
                        }
                        segs.push(json!({"id": sid, "first": sref.first_lsn.as_u64(), "last": sref.last_lsn.as_u64(), "n": sref.commit_anchors.len()}));
                        anchors.extend(sref.commit_anchors.iter().map(|an| (an.transaction_id, an.commit_digest)));
                    }
                    let reported: Vec<_> = report.transactions.iter().map(|t| (t.commit.transaction_id, t.commit.commit_digest)).collect();
                    let mut sorted_anchors = anchors.clone();
                    sorted_anchors.sort_by_key(|x| reported.iter().position(|y| y == x).unwrap_or(usize::MAX));
                    let agrees = sorted_anchors == reported;
                    if !agrees {
                        vd.push("project_filesystem_wal_recovery", format!("Present with {} commit anchors for a report of {} transactions", anchors.len(), reported.len()));
                    } else if fs_class == "prefix" && !layout_ok {
                        vd.push(
                            "project_filesystem_wal_recovery",
                            "Present although the segment files do not hold the frames / LSN ranges the projection describes".to_string(),
                        );
                    }
                    json!({"class": "present", "segments": segs, "layout_ok": layout_ok})
                }
                WalRecoveryProjectionPosture::Obstructed => json!({"class": "obstructed", "why": p.obstructions.iter().take(3).map(short).collect::<Vec<_>>()}),
                WalRecoveryProjectionPosture::Absent => json!({"class": "absent"}),
            },
            Err(pn) => {
                vd.push("project_filesystem_wal_recovery", "panic".into());
                json!({"class": "panic", "err": pn})
            }
        },
        Ok(Ok(_)) => json!({"class": "skipped"}),
        _ => json!({"class": "noreport"}),
    };
    let ro_pure = snapshot(dir) == snap0;
    ev["ro_pure"] = json!(ro_pure);
    if !ro_pure {
        vd.push("read_only_entry_points", "a read-only entry point changed the directory".into());
    }
    // ---- open + ledger cross-check
    ev["open"] = match catch(|| FilesystemWalStore::open(dir, WalSegmentId::from_raw(a.active_seg)).map(|_| ())) {
        Ok(Ok(())) => {
            let led = img.ledger.as_ref().and_then(|l| decode_ledger(l));
            let commits: Vec<&Rec> = present.iter().filter(|r| r.kind == 2).collect();
            let admitted = match &led {
                None => commits.is_empty(),
                Some(l) => {
                    let eps: Vec<&LedEpoch> = l.closed.iter().chain(l.active.iter()).collect();
                    commits.iter().all(|c| eps.iter().any(|e| e.id == c.epoch) || (!eps.is_empty() && eps.iter().all(|e| c.lsn < e.start)))
                }
            };
            if !admitted {
                vd.push("open", "FilesystemWalStore::open succeeded although a commit marker on disk was written under a writer epoch the ledger does not name, inside the LSN range the ledger covers".into());
            }
            json!({"class": "ok", "admitted": admitted})
        }
        Ok(Err(e)) => json!({"class": "err", "err": short(&e)}),
        Err(p) => {
            vd.push("open", "panic".into());
            json!({"class": "panic", "err": p})
        }
    };
    // ---- writable recovery, then a second read-only scan of what it left behind
    if a.family == "S" {
        materialise_img(dir, img);
        let w = catch(|| recover_filesystem_store(dir, RecoveryAccessMode::Writable));
        let mut o = scan_outcome(&w);
        let wc = class_of(&o, &a.committed);
        if wc == "nonprefix" || wc == "panic" {
            vd.push("recover_filesystem_store", format!("Writable: {wc}"));
        }
        if wc == "prefix" {
            let after = scan_outcome(&catch(|| recover_filesystem_store(dir, RecoveryAccessMode::ReadOnly)));
            if after["class"] != "ok" || after["h"] != o["h"] {
                vd.push("writable_recovery", format!("after a Writable recovery that returned {} transactions a ReadOnly scan gives {} / {}", o["h"].as_array().map(|x| x.len()).unwrap_or(0), after["class"], after["h"].as_array().map(|x| x.len()).unwrap_or(0)));
            }
            o["after"] = json!({"class": after["class"], "n": after["h"].as_array().map(|x| x.len()).unwrap_or(0)});
        }
        o["segments_after"] = json!(read_img(dir).files.len());
        ev["fsw"] = o;
    } else {
        // ---- a fresh host on the edited directory
        materialise_img(dir, img);
        let cb0 = callbacks();
        ev["host"] = match catch(|| open_host(dir)) {
            Ok(Ok(mut host)) => match view_of(&mut host, &a.ids) {
                Ok(v) => {
                    let k = v.k as usize;
                    if a.fps.get(k) != Some(&v.fp) {
                        vd.push("enable_runtime_wal", format!("the opened host shows {k} committed transactions with a view that is not the writing host's view after {k} commits"));
                    }
                    json!({"class": "ok", "k": v.k, "fp": v.fp, "subs": v.subs})
                }
                Err(e) => json!({"class": "err", "err": format!("view: {e}").chars().take(200).collect::<String>()}),
            },
            Ok(Err(e)) => json!({"class": "err", "err": e.chars().take(200).collect::<String>()}),
            Err(p) => {
                vd.push("enable_runtime_wal", "panic".into());
                json!({"class": "panic", "err": p})
            }
        };
        if callbacks() != cb0 {
            vd.push("enable_runtime_wal", "recovery ran an application callback".into());
        }
    }
    ev["effect"] = json!(effect(a, img));
    (ev, vd)
}

// --------------------------------------------------------------------------- driver

pub fn run(args: &[String]) -> i32 {
    if args.len() < 4 {
        eprintln!("usage: echo-verif c11s <cases.ndjson> <out.ndjson> <seed> <quick|thorough>");
        return 2;
    }
    let seed: u64 = args[2].parse().unwrap_or(1);
    let work = std::env::var("VERIF_WORK").unwrap_or_else(|_| "/verif/work".to_string());
    let scratch = PathBuf::from(work).join("c11s_scratch").join(format!("{}", std::process::id()));
    let _ = fs::remove_dir_all(&scratch);
    fs::create_dir_all(&scratch).expect("scratch");
    let mut out = Out::create(&args[1]);
    let code = match main_leg(&args[0], seed, &scratch, &mut out) {
        Ok(v) => {
            println!("{v}");
            0
        }
        Err(e) => {
            eprintln!("c11s harness error: {e}");
            2
        }
    };
    out.finish();
    let _ = fs::remove_dir_all(&scratch);
    code
}

struct Shape {
    s: BTreeMap<String, SegLog>,
    h: Option<BTreeMap<String, SegLog>>,
}

fn usizes(v: &Value) -> Vec<usize> {
    v.as_array().map(|a| a.iter().filter_map(|x| x.as_u64().map(|y| y as usize)).collect()).unwrap_or_default()
}

fn main_leg(cases: &str, seed: u64, scratch: &Path, out: &mut Out) -> Result<Value, String> {
    let mut rng = StdRng::seed_from_u64(seed.wrapping_mul(104_729).wrapping_add(17));
    let mut shapes: BTreeMap<String, Shape> = BTreeMap::new();
    let edir = scratch.join("e");
    let (mut n_s, mut n_h, mut n_bad, mut n_drift) = (0u64, 0u64, 0u64, 0u64);
    for (ci, c) in read_lines(cases) {
        let layout = usizes(&c["layout"]);
        let eos = usizes(&c["eos"]);
        if c["nf"].as_u64() != Some(3) {
            return Err("model cases must use NF = 3 (a submission-intake transaction with retained material has 3 frames)".into());
        }
        let key = format!("{layout:?}/{eos:?}");
        if !shapes.contains_key(&key) {
            let mut s = BTreeMap::new();
            for fl in ["A", "B", "C", "H"] {
                s.insert(fl.to_string(), build_store_log(fl, &layout, &eos, &scratch.join(format!("s{fl}")))?);
            }
            let hfam = (|| -> Result<BTreeMap<String, SegLog>, String> {
                let mut m = BTreeMap::new();
                m.insert("A".to_string(), build_host_log("HA", "", &layout, &eos, &scratch.join("ha"))?);
                m.insert("H".to_string(), build_host_log("HH", "x", &layout, &eos, &scratch.join("hh"))?);
                // the split directory must behave like the host's own (control)
                let a = &m["A"];
                let (ev, vd) = evaluate(a, &a.img, &scratch.join("hc"));
                if !vd.bad.is_empty() || ev["host"]["class"] != "ok" || ev["host"]["k"].as_u64() != Some(a.committed.len() as u64) {
                    return Err(format!("control (unedited split host log) fails: {:?} {}", vd.bad, ev["host"]));
                }
                // the second host's first epoch id coincides with the first host's, the second does not
                let (la, lh) = (decode_ledger(a.img.ledger.as_ref().ok_or("l")?).ok_or("l")?, decode_ledger(m["H"].img.ledger.as_ref().ok_or("l")?).ok_or("l")?);
                if la.closed[0].id != lh.closed[0].id || la.active.as_ref().map(|e| e.id) == lh.active.as_ref().map(|e| e.id) {
                    return Err("host epoch ids of the two hosts do not relate like the model's A and H".into());
                }
                Ok(m)
            })();
            let h = match hfam {
                Ok(m) => Some(m),
                Err(e) => {
                    out.line(&json!({"event": "note", "family_h_unavailable": e, "shape": key}));
                    None
                }
            };
            for (fam, logs) in [("S", Some(&s)), ("H", h.as_ref())] {
                if let Some(logs) = logs {
                    out.line(&json!({"event": "log", "family": fam, "shape": key, "committed": logs["A"].committed,
                        "segments": logs["A"].img.files.iter().map(|f| f.bytes.len()).collect::<Vec<_>>(),
                        "records": logs["A"].recs.iter().map(|r| r.len()).collect::<Vec<_>>()}));
                }
            }
            shapes.insert(key.clone(), Shape { s, h });
        }
        let shape = shapes.get(&key).ok_or("shape")?;
        let src = c["e"]["src"].as_str().unwrap_or("-");
        for fam in ["S", "H"] {
            let logs = match fam {
                "S" => &shape.s,
                _ => match &shape.h {
                    Some(m) => m,
                    None => continue,
                },
            };
            // family H only has the other log "H"
            if src != "-" && !logs.contains_key(src) {
                continue;
            }
            let a = &logs["A"];
            let (img, what) = apply_edit(a, logs, &c["e"], &mut rng).map_err(|e| format!("case {ci}: {e}"))?;
            let (mut ev, vd) = evaluate(a, &img, &edir);
            // model prediction vs real outcome
            let pred = &c["pred"];
            let mut drift = Vec::new();
            let real_fs = class_of(&ev["fs"], &a.committed);
            if pred["fs"].as_str() != Some(real_fs.as_str()) {
                drift.push(format!("fs: model {} real {real_fs}", pred["fs"]));
            } else if real_fs != "err" {
                // the predicted history, mapped to the digests of the real logs
                let want: Vec<String> = c["hist"]
                    .as_array()
                    .map(|hs| hs.iter().filter_map(|x| Some(logs.get(x["src"].as_str()?)?.committed.get(x["tx"].as_u64()? as usize - 1)?.clone())).collect())
                    .unwrap_or_default();
                if json!(want) != ev["fs"]["h"] {
                    drift.push(format!("fs history: model {} real {} transactions", c["hist"], ev["fs"]["h"].as_array().map(|x| x.len()).unwrap_or(0)));
                }
            }
            if pred["doctor"] != ev["doctor"]["class"] || (ev["doctor"]["class"] == "ok" && pred["dn"] != ev["doctor"]["n"]) {
                drift.push(format!("doctor: model {}/{} real {}/{}", pred["doctor"], pred["dn"], ev["doctor"]["class"], ev["doctor"]["n"]));
            }
            if pred["manifest"] != ev["manifest"]["class"] {
                drift.push(format!("manifest: model {} real {}", pred["manifest"], ev["manifest"]["class"]));
            }
            if fam == "S" && pred["proj"] != ev["proj"]["class"] {
                drift.push(format!("proj: model {} real {} {}", pred["proj"], ev["proj"]["class"], ev["proj"]["why"]));
            }
            if pred["open"] != ev["open"]["class"] {
                drift.push(format!("open: model {} real {} {}", pred["open"], ev["open"]["class"], ev["open"]["err"]));
            }
            ev["event"] = json!("edit");
            ev["case"] = json!(ci);
            ev["family"] = json!(fam);
            ev["edit"] = c["e"].clone();
            ev["what"] = json!(what);
            ev["pred"] = pred.clone();
            ev["real_fs"] = json!(real_fs);
            ev["drift"] = json!(drift);
            ev["bad"] = json!(vd.bad.iter().map(|(e, w)| json!({"entry": e, "why": w})).collect::<Vec<_>>());
            out.line(&ev);
            if fam == "S" { n_s += 1 } else { n_h += 1 }
            n_bad += vd.bad.len() as u64;
            n_drift += u64::from(!drift.is_empty());
        }
    }
    let _ = fs::remove_dir_all(&edir);
    Ok(json!({"edits_store_family": n_s, "edits_host_family": n_h, "property_breaches": n_bad, "drift_events": n_drift, "shapes": shapes.len()}))
}
