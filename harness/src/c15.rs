//! C15 - speculative lanes fork faithfully and settle lawfully.
//!
//! Every behaviour exported by spec/MC_C15.tla (parent ticks, a fork at some parent tick, interleaved
//! parent / strand ticks with chosen slot footprints, support pins, compare + plan + settle under a
//! plural policy) is replayed into a real `WorldlineRuntime` + `ProvenanceService` + `Engine`:
//! ticks go through `runtime.ingest` + `SchedulerCoordinator::super_tick` with one table-driven
//! `cmd/` rule whose footprint is exactly the model program's read/write set.
//!
//! After every step the harness compares the projected slot values and history lengths of every lane
//! with the model, and decides the property on the real outcome: fork copies exactly the prefix and
//! registers only fresh heads keyed by the child; a tick on one lane leaves every other lane
//! bit-identical (debug fingerprint of frontier, heads and provenance entries); planning leaves
//! `{:?}` of runtime and provenance unchanged and is deterministic; a settlement failing at any step
//! restores runtime and provenance exactly; a successful one appends one entry per decision and one
//! shell, never changes a slot the parent wrote after the anchor, gives the parent the strand's
//! values on imported slots, and leaves the parent replayable from its own history.

use std::collections::{BTreeMap, BTreeSet};

use serde::Deserialize;
use serde_json::{json, Value};
use warp_core::{
    make_head_id, make_intent_kind, make_strand_id, ActorId, AdmissionScopeId, AttachmentKey, AttachmentOwner,
    AttachmentValue, AuthorityBinding, AuthorityDomainId, AuthorityDomainRef, BraidMemberRef, BraidShell,
    BraidShellMember, BraidShellOutcome, CausalAuthority, CausalPosture, ConflictPolicy, ConflictReason, Engine,
    EngineBuilder, Footprint, ForkStrandRequest, GlobalTick, GraphView, InboxPolicy, IngressDisposition,
    IngressEnvelope, IngressTarget, MemberVerdict, NodeId, NodeKey, NodeRecord, OriginId, PatternGraph, PlaybackMode,
    PostureDerivation, ProvenanceEntry, ProvenanceEventKind, ProvenanceService, ProvenanceStore, RetentionContractId,
    RetentionPosture,
    RewriteRule, SchedulerCoordinator, SchedulerKind, SealStrength, SettlementDecision, SettlementPlan,
    SettlementPolicy, SettlementService, SlotId, StrandId, StrandOverlapRevalidation, StrandRevalidationState,
    TickDelta, WarpOp, WorldlineId, WorldlineRuntime, WorldlineState, WorldlineTick, WriterHead, WriterHeadKey,
};

use crate::absgraph::{self, AttJ, EdgeJ, InstJ, KeyJ, NodeJ, StateJ};
use crate::ids;
use crate::util;

// --------------------------------------------------------------------------- model vocabulary

const RULE_NAME: &str = "cmd/verif-c15";
const MAGIC: &[u8] = b"VS";
const SLOTS: [&str; 4] = ["n1", "n2", "n3", "n4"];

#[derive(Deserialize, Clone, Debug)]
struct ProgJ {
    k: String,
    a: String,
    b: String,
    v: String,
}

fn slot_ix(s: &str) -> u8 {
    match s {
        "n1" => 1,
        "n2" => 2,
        "n3" => 3,
        _ => 4,
    }
}
fn kind_ix(k: &str) -> u8 {
    match k {
        "set" => 0,
        "copy" => 1,
        "read" => 2,
        "del" => 3,
        _ => 4,
    }
}
fn val_ix(v: &str) -> u8 {
    match v {
        "p0" => 1,
        "p1" => 2,
        "tA" => 3,
        "tB" => 4,
        _ => 0,
    }
}

fn encode_intent(nonce: u32, p: &ProgJ) -> Vec<u8> {
    let mut v = MAGIC.to_vec();
    v.extend_from_slice(&nonce.to_le_bytes());
    v.extend_from_slice(&[kind_ix(&p.k), slot_ix(&p.a), slot_ix(&p.b), val_ix(&p.v)]);
    v
}

#[derive(Clone, Copy)]
struct Op {
    kind: u8,
    a: u8,
    b: u8,
    v: u8,
}

fn decode(view: GraphView<'_>, scope: &NodeId) -> Option<Op> {
    match view.node_attachment(scope) {
        Some(AttachmentValue::Atom(p)) => {
            let b = p.bytes.as_ref();
            if b.len() == 10 && &b[..2] == MAGIC {
                Some(Op { kind: b[6], a: b[7], b: b[8], v: b[9] })
            } else {
                None
            }
        }
        _ => None,
    }
}

fn slot_node(a: u8) -> NodeId {
    ids::node(&format!("n{}", a.clamp(1, 4)))
}
fn att_of(v: u8) -> Option<AttachmentValue> {
    match v {
        1 => Some(AttachmentValue::Atom(ids::atom("p0"))),
        2 => Some(AttachmentValue::Atom(ids::atom("p1"))),
        _ => None,
    }
}

fn rule_match(view: GraphView<'_>, scope: &NodeId) -> bool {
    decode(view, scope).is_some()
}

fn rule_exec(view: GraphView<'_>, scope: &NodeId, delta: &mut TickDelta) {
    let Some(o) = decode(view, scope) else { return };
    let warp = view.warp_id();
    let nk = |n: NodeId| NodeKey { warp_id: warp, local_id: n };
    let a = slot_node(o.a);
    let b = slot_node(o.b);
    match o.kind {
        0 => {
            if view.node(&a).is_some() {
                let _ = view.node_attachment(&a);
                delta.push(WarpOp::SetAttachment { key: AttachmentKey::node_alpha(nk(a)), value: att_of(o.v) });
            }
        }
        1 => {
            let v = view.node_attachment(&a).cloned();
            if view.node(&b).is_some() {
                let _ = view.node_attachment(&b);
                delta.push(WarpOp::SetAttachment { key: AttachmentKey::node_alpha(nk(b)), value: v });
            }
        }
        2 => {
            let _ = view.node_attachment(&a);
        }
        3 => {
            let has = view.node(&a).is_some();
            let _ = view.node_attachment(&a);
            if has {
                delta.push(WarpOp::DeleteNode { node: nk(a) });
            }
        }
        _ => {
            let ty = if o.v == 4 { "tB" } else { "tA" };
            delta.push(WarpOp::UpsertNode { node: nk(a), record: NodeRecord { ty: ids::ty(ty) } });
        }
    }
}

fn rule_fp(view: GraphView<'_>, scope: &NodeId) -> Footprint {
    let warp = view.warp_id();
    let nk = |n: NodeId| NodeKey { warp_id: warp, local_id: n };
    let mut fp = Footprint { factor_mask: 1, ..Footprint::default() };
    fp.n_read.insert(nk(*scope));
    fp.a_read.insert(AttachmentKey::node_alpha(nk(*scope)));
    if let Some(o) = decode(view, scope) {
        let a = slot_node(o.a);
        let b = slot_node(o.b);
        match o.kind {
            0 => {
                fp.n_read.insert(nk(a));
                fp.a_read.insert(AttachmentKey::node_alpha(nk(a)));
                fp.a_write.insert(AttachmentKey::node_alpha(nk(a)));
            }
            1 => {
                fp.n_read.insert(nk(b));
                fp.a_read.insert(AttachmentKey::node_alpha(nk(a)));
                fp.a_read.insert(AttachmentKey::node_alpha(nk(b)));
                fp.a_write.insert(AttachmentKey::node_alpha(nk(b)));
            }
            2 => {
                fp.a_read.insert(AttachmentKey::node_alpha(nk(a)));
            }
            3 => {
                fp.n_read.insert(nk(a));
                fp.n_write.insert(nk(a));
                fp.a_read.insert(AttachmentKey::node_alpha(nk(a)));
                fp.a_write.insert(AttachmentKey::node_alpha(nk(a)));
            }
            _ => {
                fp.n_write.insert(nk(a));
            }
        }
    }
    fp
}

fn rule() -> RewriteRule {
    RewriteRule {
        id: *blake3::hash(format!("rule:{RULE_NAME}").as_bytes()).as_bytes(),
        name: RULE_NAME,
        left: PatternGraph { nodes: vec![] },
        matcher: rule_match,
        executor: rule_exec,
        compute_footprint: rule_fp,
        factor_mask: 1,
        conflict_policy: ConflictPolicy::Abort,
        join_fn: None,
    }
}

// --------------------------------------------------------------------------- world

fn wl(name: &str) -> WorldlineId {
    WorldlineId::from_bytes(match name {
        "P" => [1; 32],
        "A" => [2; 32],
        "B" => [3; 32],
        _ => [9; 32],
    })
}
fn sid(name: &str) -> StrandId {
    make_strand_id(&format!("verif-c15-{name}"))
}
fn wt(t: u64) -> WorldlineTick {
    WorldlineTick::from_raw(t)
}
fn head_key(w: WorldlineId) -> WriterHeadKey {
    WriterHeadKey { worldline_id: w, head_id: make_head_id("h0") }
}
fn new_head(key: WriterHeadKey) -> WriterHead {
    WriterHead::with_routing(key, PlaybackMode::Play, InboxPolicy::AcceptAll, None, true)
}

fn shared_posture() -> RetentionPosture {
    let origin = OriginId::from_bytes([0x51; 32]);
    let domain = AuthorityDomainRef::new(origin, AuthorityDomainId::from_bytes([0x52; 32]));
    let authority = CausalAuthority::new(
        origin,
        ActorId::from_bytes([0x53; 32]),
        domain,
        AuthorityBinding::LocalUnbound { origin },
        SealStrength::Advisory,
    )
    .expect("authority");
    RetentionPosture::new(
        CausalPosture::Shared,
        PostureDerivation::ExplicitIntent,
        authority,
        RetentionContractId::from_bytes([0x54; 32]),
        Some(AdmissionScopeId::from_bytes([0x55; 32])),
    )
    .expect("shared posture")
}

fn policy(name: &str) -> SettlementPolicy {
    if name == "plural" {
        SettlementPolicy::allow_plural_over_footprint_overlap([0x5E; 32])
    } else {
        SettlementPolicy::default()
    }
}

/// U0: root n0 with n1..n3 linked from it (so the state root covers their attachments) and an
/// isolated node n4 (so that it can be deleted).
fn u0_state() -> WorldlineState {
    let none = AttJ { k: "none".into(), ..Default::default() };
    let s = StateJ {
        inst: vec![InstJ { w: "w0".into(), root: "n0".into(), parent: KeyJ { o: "none".into(), ..Default::default() } }],
        node: ["n0", "n1", "n2", "n3", "n4"]
            .iter()
            .map(|n| NodeJ { w: "w0".into(), n: (*n).into(), ty: "tA".into(), att: none.clone() })
            .collect(),
        edge: (1..=3)
            .map(|k| EdgeJ {
                w: "w0".into(),
                e: format!("e{}", k - 1),
                from: "n0".into(),
                to: format!("n{k}"),
                ty: "tA".into(),
                att: none.clone(),
            })
            .collect(),
    };
    WorldlineState::new(absgraph::build_state(&s), absgraph::nkey("w0", "n0")).expect("U0 must be a valid worldline state")
}

struct World {
    runtime: WorldlineRuntime,
    prov: ProvenanceService,
    engine: Engine,
    u0: WorldlineState,
    nonce: u32,
    live: Vec<String>,
    /// ingress event nodes created by this harness (their slots appear in in_slots)
    events: BTreeSet<NodeId>,
}

impl World {
    fn new() -> Result<Self, String> {
        let u0 = u0_state();
        let mut runtime = WorldlineRuntime::new();
        runtime.register_worldline(wl("P"), u0.clone()).map_err(|e| format!("register worldline: {e:?}"))?;
        runtime.register_writer_head(new_head(head_key(wl("P")))).map_err(|e| format!("register head: {e:?}"))?;
        let mut prov = ProvenanceService::new();
        prov.register_worldline(wl("P"), &u0).map_err(|e| format!("prov register: {e:?}"))?;
        let mut engine = EngineBuilder::from_state(u0.warp_state().clone(), *u0.root())
            .scheduler(SchedulerKind::Radix)
            .workers(1)
            .build()
            .map_err(|e| format!("engine build: {e:?}"))?;
        engine.register_rule(rule()).map_err(|e| format!("register rule: {e:?}"))?;
        Ok(Self { runtime, prov, engine, u0, nonce: 0, live: vec!["P".into()], events: BTreeSet::new() })
    }

    fn state(&self, w: &str) -> Result<&WorldlineState, String> {
        self.runtime.worldlines().get(&wl(w)).map(|f| f.state()).ok_or_else(|| format!("worldline {w} not registered"))
    }

    fn vals(&self, w: &str) -> Result<BTreeMap<String, String>, String> {
        Ok(project_slots(self.state(w)?))
    }

    fn len(&self, w: &str) -> Result<u64, String> {
        self.prov.len(wl(w)).map_err(|e| format!("prov len {w}: {e:?}"))
    }

    /// Everything the runtime and provenance hold about one lane.
    fn lane_fp(&self, w: &str) -> String {
        lane_fp(&self.runtime, &self.prov, w)
    }
}

fn lane_fp(runtime: &WorldlineRuntime, prov: &ProvenanceService, w: &str) -> String {
    timed("lane_fp", || lane_fp_inner(runtime, prov, w))
}
fn lane_fp_inner(runtime: &WorldlineRuntime, prov: &ProvenanceService, w: &str) -> String {
    let id = wl(w);
    let frontier = runtime.worldlines().get(&id).map(|f| format!("{f:?}")).unwrap_or_else(|| "<none>".into());
    let head = runtime.heads().get(&head_key(id)).map(|h| format!("{h:?}")).unwrap_or_else(|| "<none>".into());
    let n = prov.len(id).unwrap_or(0);
    let mut entries = String::new();
    for t in 0..n {
        entries.push_str(&format!("{:?}\n", prov.entry(id, wt(t))));
    }
    let h = blake3::hash(format!("{frontier}|{head}|{n}|{entries}").as_bytes());
    hex::encode(&h.as_bytes()[..16])
}

/// `{:?}` of the whole runtime and provenance service with the `_for_test` scan counter masked.
fn full_fp(runtime: &WorldlineRuntime, prov: &ProvenanceService) -> String {
    timed("full_fp", || full_fp_inner(runtime, prov))
}
fn full_fp_inner(runtime: &WorldlineRuntime, prov: &ProvenanceService) -> String {
    let r = format!("{runtime:?}");
    let r = mask_field(&r, "receipt_correlation_full_scan_count: Cell { value: ");
    format!("{r}\n#\n{prov:?}")
}

fn mask_field(s: &str, prefix: &str) -> String {
    match s.find(prefix) {
        None => s.to_string(),
        Some(i) => {
            let start = i + prefix.len();
            let end = s[start..].find(|c: char| !c.is_ascii_digit()).map(|e| start + e).unwrap_or(s.len());
            format!("{}<masked>{}", &s[..start], &s[end..])
        }
    }
}

fn fp_diff(a: &str, b: &str) -> String {
    let i = a.bytes().zip(b.bytes()).position(|(x, y)| x != y).unwrap_or(a.len().min(b.len()));
    let lo = i.saturating_sub(120);
    let cut = |s: &str| s.get(lo..(i + 120).min(s.len())).unwrap_or("<non-utf8 boundary>").to_string();
    format!("first difference at byte {i}: before `{}` after `{}`", cut(a), cut(b))
}

fn project_slots(state: &WorldlineState) -> BTreeMap<String, String> {
    let mut m = BTreeMap::new();
    let store = state.store(&ids::warp("w0"));
    for n in ["n1", "n2", "n3"] {
        let v = match store.and_then(|s| s.node_attachment(&ids::node(n))) {
            None => "none".to_string(),
            Some(AttachmentValue::Atom(p)) if *p == ids::atom("p0") => "p0".to_string(),
            Some(AttachmentValue::Atom(p)) if *p == ids::atom("p1") => "p1".to_string(),
            Some(other) => format!("?{other:?}"),
        };
        m.insert(n.to_string(), v);
    }
    let n4 = match store.and_then(|s| s.node(&ids::node("n4"))) {
        None => "absent".to_string(),
        Some(r) if r.ty == ids::ty("tA") => "tA".to_string(),
        Some(r) if r.ty == ids::ty("tB") => "tB".to_string(),
        Some(r) => format!("?{:?}", r.ty),
    };
    let n4 = if n4 != "absent" && store.and_then(|s| s.node_attachment(&ids::node("n4"))).is_some() {
        format!("{n4}+att")
    } else {
        n4
    };
    m.insert("n4".to_string(), n4);
    m
}

/// Model slot of a real slot id: Some(name) for a modelled slot, None for slots outside the model
/// that are legitimately present (event nodes of harness intents, read-only node slots of n1..n3).
fn slot_name(events: &BTreeSet<NodeId>, s: &SlotId, written: bool) -> Result<Option<&'static str>, String> {
    let node_name = |n: &NodeKey| -> Option<&'static str> {
        if n.warp_id != ids::warp("w0") {
            return None;
        }
        SLOTS.iter().copied().find(|m| ids::node(m) == n.local_id)
    };
    match s {
        SlotId::Attachment(k) => match k.owner {
            AttachmentOwner::Node(n) => {
                if let Some(m) = node_name(&n) {
                    Ok(Some(m))
                } else if events.contains(&n.local_id) && !written {
                    Ok(None)
                } else {
                    Err(format!("unexpected attachment slot {s:?} (written={written})"))
                }
            }
            AttachmentOwner::Edge(_) => Err(format!("unexpected edge attachment slot {s:?}")),
        },
        SlotId::Node(n) => match node_name(n) {
            Some("n4") => Ok(Some("n4")),
            Some(_) if !written => Ok(None),
            Some(_) => Err(format!("node slot of an attachment-only node written: {s:?}")),
            None if events.contains(&n.local_id) && !written => Ok(None),
            None => Err(format!("unexpected node slot {s:?} (written={written})")),
        },
        other => Err(format!("unexpected slot kind {other:?}")),
    }
}

fn slot_set<'a>(events: &BTreeSet<NodeId>, it: impl Iterator<Item = &'a SlotId>, written: bool) -> Result<BTreeSet<String>, String> {
    let mut out = BTreeSet::new();
    for s in it {
        if let Some(m) = slot_name(events, s, written)? {
            out.insert(m.to_string());
        }
    }
    Ok(out)
}

fn json_set(v: &Value) -> BTreeSet<String> {
    v.as_array().map(|a| a.iter().filter_map(|x| x.as_str().map(str::to_string)).collect()).unwrap_or_default()
}

fn json_vals(v: &Value) -> BTreeMap<String, String> {
    v.as_object()
        .map(|o| o.iter().map(|(k, x)| (k.clone(), x.as_str().unwrap_or("?").to_string())).collect())
        .unwrap_or_default()
}

// --------------------------------------------------------------------------- case runner

struct Findings {
    list: Vec<(String, String)>,
    drift: Vec<String>,
}

impl Findings {
    fn violation(&mut self, kind: &str, detail: String) {
        if !self.list.iter().any(|(k, _)| k == kind) {
            self.list.push((kind.to_string(), detail));
        }
    }
    fn drift(&mut self, d: String) {
        if self.drift.len() < 8 {
            self.drift.push(d);
        }
    }
}

struct Stats {
    ticks: u64,
    imports: u64,
    conflicts: u64,
    plurals: u64,
    clean_overlap: u64,
    obstructed: u64,
    unlawful: u64,
    fail_points: u64,
    shell_fail: u64,
    basis: BTreeSet<String>,
}

/// Compares slot values and history lengths of every lane with the model's prediction.
fn check_snapshot(world: &World, step: &Value, f: &mut Findings, at: &str) -> Result<(), String> {
    let vals = step["vals"].as_object().ok_or("step without vals")?;
    for (w, want) in vals {
        let got = world.vals(w)?;
        let want = json_vals(want);
        if got != want {
            f.violation("lane_values_differ_from_model", format!("{at}: lane {w}: real {got:?}, model {want:?}"));
        }
        let want_len = step["lens"][w].as_u64().ok_or("step without lens")?;
        let got_len = world.len(w)?;
        let frontier = world.runtime.worldlines().get(&wl(w)).map(|x| x.frontier_tick().as_u64()).unwrap_or(u64::MAX);
        if got_len != want_len || frontier != want_len {
            f.violation(
                "lane_length_differs_from_model",
                format!("{at}: lane {w}: provenance len {got_len}, frontier {frontier}, model {want_len}"),
            );
        }
    }
    if vals.len() != world.live.len() {
        return Err(format!("{at}: model has {} lanes, harness {}", vals.len(), world.live.len()));
    }
    Ok(())
}

fn do_tick(world: &mut World, step: &Value, progs: &[ProgJ], f: &mut Findings, st: &mut Stats, at: &str) -> Result<(), String> {
    let w = step["w"].as_str().ok_or("tick without w")?.to_string();
    let pi = step["pi"].as_u64().ok_or("tick without pi")? as usize;
    let p = progs.get(pi - 1).ok_or("program index out of range")?;
    let before: BTreeMap<String, String> = world.live.iter().map(|x| (x.clone(), world.lane_fp(x))).collect();
    let roots_before: BTreeMap<String, [u8; 32]> =
        world.live.iter().map(|x| (x.clone(), world.state(x).map(|s| s.state_root()).unwrap_or([0; 32]))).collect();
    let shells_before = world.prov.braid_shells().count();
    let registry_before = format!("{:?}", world.runtime.strands());
    world.nonce += 1;
    let env = IngressEnvelope::local_intent(
        IngressTarget::DefaultWriter { worldline_id: wl(&w) },
        make_intent_kind("verif/c15"),
        encode_intent(world.nonce, p),
    );
    world.events.insert(NodeId(env.ingress_id()));
    match world.runtime.ingest(env).map_err(|e| format!("{at}: ingest: {e:?}"))? {
        IngressDisposition::Accepted { head_key: hk, .. } if hk == head_key(wl(&w)) => {}
        other => {
            f.violation("intent_routed_to_foreign_head", format!("{at}: intent for lane {w} was not accepted by its own head: {other:?}"));
            return Ok(());
        }
    }
    let recs = util::catch(|| SchedulerCoordinator::super_tick(&mut world.runtime, &mut world.prov, &mut world.engine))
        .map_err(|p| format!("{at}: super_tick panicked: {p}"))?
        .map_err(|e| format!("{at}: super_tick: {e:?}"))?;
    st.ticks += 1;
    if recs.len() != 1 || recs[0].head_key != head_key(wl(&w)) {
        f.violation(
            "tick_committed_on_other_lane",
            format!("{at}: one intent for lane {w}; committed heads: {:?}", recs.iter().map(|r| r.head_key).collect::<Vec<_>>()),
        );
    }
    // lane isolation, decided on the real state: every other lane is bit-identical
    for x in &world.live {
        if *x == w {
            continue;
        }
        let now = world.lane_fp(x);
        let root_now = world.state(x)?.state_root();
        if now != before[x] || root_now != roots_before[x] {
            let kind = if w == "P" { "parent_tick_changed_strand" } else if x == "P" { "strand_tick_changed_parent" } else { "strand_tick_changed_other_strand" };
            f.violation(kind, format!("{at}: tick on lane {w} changed lane {x} (state root equal: {})", root_now == roots_before[x]));
        }
    }
    if world.prov.braid_shells().count() != shells_before || format!("{:?}", world.runtime.strands()) != registry_before {
        f.violation("tick_changed_registry_or_shells", format!("{at}: tick on lane {w}"));
    }
    // the committed entry: footprint slots and ops as the model says
    let n = world.len(&w)?;
    let entry = world.prov.entry(wl(&w), wt(n - 1)).map_err(|e| format!("{at}: entry: {e:?}"))?;
    if !matches!(entry.event_kind, ProvenanceEventKind::LocalCommit) || entry.head_key != Some(head_key(wl(&w))) {
        f.violation("tick_entry_not_local_commit_of_own_head", format!("{at}: {:?} {:?}", entry.event_kind, entry.head_key));
    }
    let patch = entry.patch.as_ref().ok_or(format!("{at}: entry without patch"))?;
    let ins = slot_set(&world.events, patch.in_slots.iter(), false).map_err(|e| format!("{at}: {e}"))?;
    let outs = slot_set(&world.events, patch.out_slots.iter(), true).map_err(|e| format!("{at}: {e}"))?;
    if ins != json_set(&step["ins"]) || outs != json_set(&step["outs"]) {
        f.drift(format!("{at}: entry slots in={ins:?} out={outs:?}, model in={:?} out={:?}", json_set(&step["ins"]), json_set(&step["outs"])));
    }
    check_snapshot(world, step, f, at)
}

fn entries_equal_modulo_lane(src: &ProvenanceEntry, child: &ProvenanceEntry, src_id: WorldlineId, child_id: WorldlineId) -> Result<(), String> {
    let mut want = src.clone();
    want.worldline_id = child_id;
    if let Some(h) = want.head_key.as_mut() {
        if h.worldline_id == src_id {
            h.worldline_id = child_id;
        }
    }
    for p in &mut want.parents {
        if p.worldline_id == src_id {
            p.worldline_id = child_id;
        }
    }
    if want == *child {
        Ok(())
    } else if want.expected != child.expected {
        Err("hash triplet differs".into())
    } else if want.patch != child.patch {
        Err("patch differs".into())
    } else if want.head_key != child.head_key {
        Err("head key differs".into())
    } else {
        Err("entry differs".into())
    }
}

fn fork_request(sid_name: &str, src: &str, t: u64, child: &str) -> ForkStrandRequest {
    ForkStrandRequest {
        strand_id: sid(sid_name),
        source_lane_id: wl(src),
        fork_tick: wt(t),
        child_worldline_id: wl(child),
        writer_heads: vec![new_head(head_key(wl(child)))],
        retention_posture: shared_posture(),
    }
}

fn do_fork_refused(world: &mut World, f: &mut Findings, at: &str) -> Result<(), String> {
    let next_sid = if world.live.len() == 1 { "sA" } else { "sB" };
    let next_child = if world.live.len() == 1 { "A" } else { "B" };
    let plen = world.len("P")?;
    let mut bad: Vec<(&str, ForkStrandRequest)> = Vec::new();
    bad.push(("tick_beyond_history", fork_request(next_sid, "P", plen, next_child)));
    bad.push(("child_is_source", {
        let mut r = fork_request(next_sid, "P", 0, "P");
        r.writer_heads = vec![new_head(WriterHeadKey { worldline_id: wl("P"), head_id: make_head_id("h1") })];
        r
    }));
    bad.push(("no_writer_head", {
        let mut r = fork_request(next_sid, "P", 0, next_child);
        r.writer_heads = Vec::new();
        r
    }));
    bad.push(("head_keyed_by_source_lane", {
        // a second, non-default head on the SOURCE lane smuggled in as the strand's writer head: only
        // INV-S8 (every writer head belongs to the child) stands between this request and a shared lane
        let mut r = fork_request(next_sid, "P", 0, next_child);
        r.writer_heads = vec![WriterHead::with_routing(
            WriterHeadKey { worldline_id: wl("P"), head_id: make_head_id("h1") },
            PlaybackMode::Play,
            InboxPolicy::AcceptAll,
            None,
            false,
        )];
        r
    }));
    bad.push(("parent_head_shared", {
        let mut r = fork_request(next_sid, "P", 0, next_child);
        r.writer_heads = vec![new_head(head_key(wl("P")))];
        r
    }));
    bad.push(("unknown_source_lane", fork_request(next_sid, "Z", 0, next_child)));
    if world.live.len() > 1 {
        bad.push(("live_child_worldline", fork_request(next_sid, "P", 0, "A")));
        bad.push(("live_strand_id", fork_request("sA", "P", 0, next_child)));
    }
    let before = full_fp(&world.runtime, &world.prov);
    for (why, req) in bad {
        let res = util::catch(|| world.runtime.fork_strand(&mut world.prov, req)).map_err(|p| format!("{at}: fork_strand panicked on {why}: {p}"))?;
        match res {
            Ok(r) => {
                f.violation(&format!("fork_accepted:{why}"), format!("{at}: fork_strand accepted a request with {why}: {r:?}"));
                return Ok(());
            }
            Err(_) => {
                // cheap screen first (lanes, heads, registry, shells); the full fingerprint once at the end
                let heads = world.runtime.heads().iter().count();
                if heads != world.live.len() || world.runtime.strands().len() + 1 != world.live.len() {
                    f.violation(&format!("refused_fork_left_traces:{why}"), format!("{at}: {heads} heads, {} strands for {} lanes", world.runtime.strands().len(), world.live.len()));
                    return Ok(());
                }
            }
        }
    }
    let after = full_fp(&world.runtime, &world.prov);
    if before != after {
        f.violation("refused_fork_left_traces", format!("{at}: {}", fp_diff(&before, &after)));
    }
    Ok(())
}

fn do_fork(world: &mut World, step: &Value, f: &mut Findings, at: &str) -> Result<(), String> {
    let s = step["sid"].as_str().ok_or("fork without sid")?.to_string();
    let src = step["src"].as_str().ok_or("fork without src")?.to_string();
    let child = step["child"].as_str().ok_or("fork without child")?.to_string();
    let t = step["t"].as_u64().ok_or("fork without t")?;
    let before: BTreeMap<String, String> = world.live.iter().map(|x| (x.clone(), world.lane_fp(x))).collect();
    let heads_before: BTreeSet<WriterHeadKey> = world.runtime.heads().iter().map(|(k, _)| *k).collect();
    let gt_before = world.runtime.global_tick();
    let receipt = util::catch(|| world.runtime.fork_strand(&mut world.prov, fork_request(&s, &src, t, &child)))
        .map_err(|p| format!("{at}: fork_strand panicked: {p}"))?
        ;
    let receipt = match receipt {
        Ok(r) => r,
        Err(e) => {
            f.violation("valid_fork_refused", format!("{at}: fork_strand refused fork of {src} at tick {t}: {e:?}"));
            return Err("ABORT".into());
        }
    };
    world.live.push(child.clone());
    // --- receipt: the pinned basis is exactly the source entry at fork_tick
    let src_entry = world.prov.entry(wl(&src), wt(t)).map_err(|e| format!("{at}: source entry: {e:?}"))?;
    let b = receipt.fork_basis_ref;
    let receipt_ok = receipt.strand_id == sid(&s)
        && receipt.child_worldline_id == wl(&child)
        && receipt.writer_heads == vec![head_key(wl(&child))]
        && b.source_lane_id == wl(&src)
        && b.fork_tick == wt(t)
        && b.commit_hash == src_entry.expected.commit_hash
        && b.boundary_hash == src_entry.expected.state_root
        && b.provenance_ref == src_entry.as_ref()
        && receipt.retention_posture == shared_posture();
    if !receipt_ok {
        f.violation("fork_receipt_wrong_basis", format!("{at}: receipt {receipt:?} vs source entry {:?}", src_entry.as_ref()));
    }
    match world.runtime.strands().get(&sid(&s)) {
        Some(st) if st.fork_basis_ref() == b && st.child_worldline_id() == wl(&child) && st.writer_heads() == [head_key(wl(&child))] && st.support_pins().is_empty() => {}
        other => f.violation("fork_registry_entry_differs_from_receipt", format!("{at}: {other:?}")),
    }
    // --- exact prefix: entries 0..=t, rewritten to the child lane, nothing more
    let clen = world.len(&child)?;
    if clen != t + 1 {
        f.violation("fork_prefix_length", format!("{at}: child history has {clen} entries, fork tick {t}"));
    }
    for i in 0..clen.min(t + 1) {
        let a = world.prov.entry(wl(&src), wt(i)).map_err(|e| format!("{at}: {e:?}"))?;
        let c = world.prov.entry(wl(&child), wt(i)).map_err(|e| format!("{at}: {e:?}"))?;
        if let Err(why) = entries_equal_modulo_lane(&a, &c, wl(&src), wl(&child)) {
            f.violation("fork_prefix_entry_differs", format!("{at}: entry {i}: {why}"));
        }
    }
    let cstate = world.state(&child)?;
    if cstate.state_root() != b.boundary_hash {
        f.violation("fork_child_state_not_basis", format!("{at}: child state root differs from the pinned boundary hash"));
    }
    let basis = json_vals(&step["basis"]);
    if project_slots(cstate) != basis {
        f.violation("fork_child_state_not_basis", format!("{at}: child values {:?}, model basis {basis:?}", project_slots(cstate)));
    }
    // the child replays from its own (copied) history
    match world.prov.replay_worldline_state(wl(&child), &world.u0) {
        Ok(r) if r.state_root() == cstate.state_root() => {}
        other => f.violation("fork_child_not_replayable", format!("{at}: {:?}", other.map(|r| r.state_root()))),
    }
    // --- fresh heads only
    let heads_after: BTreeSet<WriterHeadKey> = world.runtime.heads().iter().map(|(k, _)| *k).collect();
    let new_heads: BTreeSet<WriterHeadKey> = heads_after.difference(&heads_before).copied().collect();
    if new_heads != BTreeSet::from([head_key(wl(&child))]) || !heads_before.is_subset(&heads_after) {
        f.violation("fork_heads_not_fresh", format!("{at}: heads before {heads_before:?}, after {heads_after:?}"));
    }
    if new_heads.iter().any(|k| k.worldline_id != wl(&child)) {
        f.violation("fork_head_keyed_by_other_lane", format!("{at}: {new_heads:?}"));
    }
    // --- nothing else moved
    for x in before.keys() {
        if world.lane_fp(x) != before[x] {
            f.violation("fork_changed_existing_lane", format!("{at}: lane {x} changed during fork of {child}"));
        }
    }
    if world.runtime.global_tick() != gt_before {
        f.drift(format!("{at}: fork advanced the global tick"));
    }
    check_snapshot(world, step, f, at)
}

fn do_pin(world: &mut World, step: &Value, f: &mut Findings, at: &str) -> Result<(), String> {
    let owner = step["owner"].as_str().ok_or("pin without owner")?;
    let target = step["target"].as_str().ok_or("pin without target")?;
    let tick = step["tick"].as_u64().ok_or("pin without tick")?;
    let want_ok = step["ok"].as_bool().unwrap_or(false);
    let before: BTreeMap<String, String> = world.live.iter().map(|x| (x.clone(), world.lane_fp(x))).collect();
    // refused variants first: self pin, unknown target
    for (why, o, t2) in [("self_pin", sid(owner), sid(owner)), ("unknown_target", sid(owner), sid("nobody"))] {
        let fp0 = full_fp(&world.runtime, &world.prov);
        if world.runtime.pin_support(&world.prov, o, t2, wt(0)).is_ok() {
            f.violation(&format!("pin_accepted:{why}"), format!("{at}"));
        } else if full_fp(&world.runtime, &world.prov) != fp0 {
            f.violation(&format!("refused_pin_left_traces:{why}"), format!("{at}"));
        }
    }
    let fp0 = full_fp(&world.runtime, &world.prov);
    let res = world.runtime.pin_support(&world.prov, sid(owner), sid(target), wt(tick));
    match (res, want_ok) {
        (Ok(pin), true) => {
            let child = world.runtime.strands().get(&sid(target)).map(|s| s.child_worldline_id()).ok_or("pin target vanished")?;
            let e = world.prov.entry(child, wt(tick)).map_err(|e| format!("{at}: {e:?}"))?;
            if pin.strand_id != sid(target) || pin.worldline_id != child || pin.pinned_tick != wt(tick) || pin.state_hash != e.expected.state_root {
                f.violation("support_pin_wrong_coordinate", format!("{at}: {pin:?}"));
            }
            let want_after = json_vals(&step["after"]);
            let at_pin = world.prov.replay_worldline_state_at(child, &world.u0, wt(tick + 1)).map_err(|e| format!("{at}: replay at pin: {e:?}"))?;
            if project_slots(&at_pin) != want_after || at_pin.state_root() != pin.state_hash {
                f.violation("support_pin_wrong_coordinate", format!("{at}: pinned state {:?}, model {want_after:?}", project_slots(&at_pin)));
            }
            match world.runtime.strands().list_support_pins(&sid(owner)) {
                Ok(p) if p == [pin] => {}
                other => f.violation("support_pin_not_registered", format!("{at}: {other:?}")),
            }
            // a duplicate pin is refused
            let fp1 = full_fp(&world.runtime, &world.prov);
            if world.runtime.pin_support(&world.prov, sid(owner), sid(target), wt(tick)).is_ok() {
                f.violation("pin_accepted:duplicate", format!("{at}"));
            } else if full_fp(&world.runtime, &world.prov) != fp1 {
                f.violation("refused_pin_left_traces:duplicate", format!("{at}"));
            }
        }
        (Err(_), false) => {
            if full_fp(&world.runtime, &world.prov) != fp0 {
                f.violation("refused_pin_left_traces:unavailable_tick", format!("{at}"));
            }
        }
        (Ok(pin), false) => f.violation("pin_accepted:unavailable_tick", format!("{at}: {pin:?}")),
        (Err(e), true) => f.violation("valid_pin_refused", format!("{at}: {e:?}")),
    }
    // support pins are read-only: no lane moved
    for x in before.keys() {
        if world.lane_fp(x) != before[x] {
            f.violation("pin_changed_lane", format!("{at}: lane {x}"));
        }
    }
    check_snapshot(world, step, f, at)
}

fn decision_kind(d: &SettlementDecision) -> &'static str {
    match d {
        SettlementDecision::ImportCandidate(_) => "import",
        SettlementDecision::ConflictArtifact(_) => "conflict",
        SettlementDecision::PluralAlternative(_) => "plural",
    }
}
fn reason_name(r: ConflictReason) -> &'static str {
    match r {
        ConflictReason::ChannelPolicyConflict => "ChannelPolicyConflict",
        ConflictReason::UnsupportedImport => "UnsupportedImport",
        ConflictReason::BaseDivergence => "BaseDivergence",
        ConflictReason::ParentFootprintOverlap => "ParentFootprintOverlap",
        ConflictReason::QuantumMismatch => "QuantumMismatch",
        ConflictReason::PluralUpstream => "PluralUpstream",
    }
}
fn reval_parts(r: Option<&StrandOverlapRevalidation>) -> (&'static str, Vec<SlotId>) {
    match r {
        None => ("none", Vec::new()),
        Some(StrandOverlapRevalidation::Clean { overlapping_slots }) => ("clean", overlapping_slots.clone()),
        Some(StrandOverlapRevalidation::Obstructed { overlapping_slots }) => ("obstructed", overlapping_slots.clone()),
        Some(StrandOverlapRevalidation::Conflict { overlapping_slots }) => ("conflict", overlapping_slots.clone()),
    }
}

/// (kind, reason, reval, overlap slots, source tick) of a real decision, in the model's vocabulary.
fn decision_abs(events: &BTreeSet<NodeId>, d: &SettlementDecision) -> Result<(String, String, String, BTreeSet<String>, u64), String> {
    Ok(match d {
        SettlementDecision::ImportCandidate(c) => {
            let (rv, slots) = reval_parts(c.overlap_revalidation.as_ref());
            ("import".into(), String::new(), rv.into(), slot_set(events, slots.iter(), false)?, c.source_ref.worldline_tick.as_u64())
        }
        SettlementDecision::ConflictArtifact(c) => {
            let (rv, slots) = reval_parts(c.overlap_revalidation.as_ref());
            ("conflict".into(), reason_name(c.reason).into(), rv.into(), slot_set(events, slots.iter(), false)?, c.source_ref.worldline_tick.as_u64())
        }
        SettlementDecision::PluralAlternative(p) => {
            ("plural".into(), String::new(), "none".into(), slot_set(events, p.overlapping_slots.iter(), false)?, p.source_ref.worldline_tick.as_u64())
        }
    })
}

/// Compares a real plan with the model's plan.  Decides the property where it is definite:
/// the basis posture is the closed-footprint classification; an entry that touches no slot the parent
/// wrote (or meets an unmoved parent) and is not behind a retained entry is imported; an entry whose
/// replay changes a parent-written slot is retained.
fn check_plan(world: &World, plan: &SettlementPlan, want: &Value, pol: &str, f: &mut Findings, at: &str) -> Result<(), String> {
    let ev = &world.events;
    let r = &plan.basis_report;
    let (kind, overlap) = match &r.parent_revalidation {
        StrandRevalidationState::AtAnchor => ("at_anchor", BTreeSet::new()),
        StrandRevalidationState::ParentAdvancedDisjoint { .. } => ("disjoint", BTreeSet::new()),
        StrandRevalidationState::RevalidationRequired { overlapping_slots, .. } => ("reval", slot_set(ev, overlapping_slots.iter(), false)?),
    };
    if kind != want["basis"].as_str().unwrap_or("") || overlap != json_set(&want["overlap"]) {
        f.violation(
            "basis_posture_not_closed_footprint_overlap",
            format!("{at}/{pol}: real posture {kind} {overlap:?}; closed-footprint classification {} {:?}", want["basis"], json_set(&want["overlap"])),
        );
    }
    let reads = slot_set(ev, r.owned_divergence.read_slots(), false)?;
    let writes = slot_set(ev, r.owned_divergence.write_slots(), true)?;
    let moved = slot_set(ev, r.parent_movement.write_slots(), true)?;
    if reads != json_set(&want["reads"]) || writes != json_set(&want["writes"]) || moved != json_set(&want["moved"]) {
        f.violation(
            "basis_report_footprints_differ",
            format!("{at}/{pol}: real reads {reads:?} writes {writes:?} parent-moved {moved:?}; model {:?} {:?} {:?}",
                json_set(&want["reads"]), json_set(&want["writes"]), json_set(&want["moved"])),
        );
    }
    if r.source_suffix_start_tick.as_u64() != want["suffixStart"].as_u64().unwrap_or(u64::MAX) {
        f.violation("suffix_window_differs", format!("{at}/{pol}: suffix start {}", r.source_suffix_start_tick));
    }
    let wdec = want["dec"].as_array().ok_or("plan without dec")?;
    if plan.decisions.len() != wdec.len() {
        f.violation("plan_length_differs", format!("{at}/{pol}: {} decisions for a suffix of {}", plan.decisions.len(), wdec.len()));
        return Ok(());
    }
    let mut retained_before = false;
    for (i, (d, w)) in plan.decisions.iter().zip(wdec.iter()).enumerate() {
        let (k, reason, rv, eo, t) = decision_abs(ev, d)?;
        let wk = w["kind"].as_str().unwrap_or("");
        let w_eo = json_set(&w["eo"]);
        if t != w["t"].as_u64().unwrap_or(u64::MAX) {
            f.violation("plan_order_differs", format!("{at}/{pol}: decision {i} is for source tick {t}"));
        }
        if k != wk {
            // definite verdicts of the property
            let untouched = w_eo.is_empty() && w["reval"] == "none" && wk == "import";
            if untouched && !retained_before {
                f.violation("clean_entry_not_imported", format!("{at}/{pol}: decision {i} (source tick {t}) is {k}/{reason}; the entry touches no parent-written slot"));
            } else if wk != "import" && k == "import" {
                f.violation("contended_entry_imported", format!("{at}/{pol}: decision {i} (source tick {t}) imported; model: {wk}/{}", w["reason"]));
            } else {
                f.violation("decision_kind_differs", format!("{at}/{pol}: decision {i}: real {k}/{reason}, model {wk}/{}", w["reason"]));
            }
        } else if reason != w["reason"].as_str().unwrap_or("") || rv != w["reval"].as_str().unwrap_or("") || eo != w_eo {
            f.drift(format!("{at}/{pol}: decision {i}: real {k}/{reason}/{rv}/{eo:?}, model {wk}/{}/{}/{w_eo:?}", w["reason"], w["reval"]));
        }
        if k != "import" {
            retained_before = true;
        }
    }
    Ok(())
}

fn expected_effect(p: &ProgJ, before: &BTreeMap<String, String>) -> BTreeMap<String, String> {
    let mut after = before.clone();
    match p.k.as_str() {
        "set" => {
            after.insert(p.a.clone(), p.v.clone());
        }
        "copy" => {
            after.insert(p.b.clone(), before[&p.a].clone());
        }
        "del" => {
            after.insert(p.a.clone(), "absent".into());
        }
        "mk" => {
            after.insert(p.a.clone(), p.v.clone());
        }
        _ => {}
    }
    after
}

#[allow(clippy::too_many_arguments)]
fn do_settle(world: &mut World, step: &Value, progs: &[ProgJ], lane_progs: &BTreeMap<(String, u64), usize>, f: &mut Findings, st: &mut Stats, at: &str) -> Result<(), String> {
    let s = step["sid"].as_str().ok_or("settle without sid")?.to_string();
    let pol = step["pol"].as_str().ok_or("settle without pol")?.to_string();
    let child = step["child"].as_str().ok_or("settle without child")?.to_string();
    let want_plan = &step["plans"][&pol];
    let target = want_plan["target"].as_str().ok_or("plan without target")?.to_string();
    let strand_id = sid(&s);
    st.basis.insert(want_plan["basis"].as_str().unwrap_or("?").to_string());

    // --- compare + plan: pure and deterministic
    let fp0 = full_fp(&world.runtime, &world.prov);
    let engine_fp0 = world.engine.verif_fingerprint();
    let delta = match SettlementService::compare(&world.runtime, &world.prov, strand_id) {
        Ok(d) => d,
        Err(e) => {
            f.violation("settlement_compare_failed", format!("{at}: {e:?}"));
            return Err("ABORT".into());
        }
    };
    if delta.source_entries.len() as u64 != want_plan["suffixLen"].as_u64().unwrap_or(u64::MAX)
        || delta.source_lane_id != wl(&child)
        || delta.source_suffix_start_tick.as_u64() != want_plan["suffixStart"].as_u64().unwrap_or(u64::MAX)
    {
        f.violation("suffix_window_differs", format!("{at}: compare reports {} suffix entries from tick {}", delta.source_entries.len(), delta.source_suffix_start_tick));
    }
    let mut real_plans: BTreeMap<String, SettlementPlan> = BTreeMap::new();
    for pname in ["refused", "plural"] {
        let p1 = SettlementService::plan_with_policy(&world.runtime, &world.prov, strand_id, &policy(pname)).map_err(|e| format!("{at}: plan/{pname}: {e:?}"))?;
        let p2 = SettlementService::plan_with_policy(&world.runtime, &world.prov, strand_id, &policy(pname)).map_err(|e| format!("{at}: plan/{pname}: {e:?}"))?;
        if p1 != p2 {
            f.violation("plan_not_deterministic", format!("{at}/{pname}: two plans of the same state differ"));
        }
        if p1.basis_report != delta.basis_report {
            f.violation("plan_and_compare_disagree_on_basis", format!("{at}/{pname}"));
        }
        check_plan(world, &p1, &step["plans"][pname], pname, f, at)?;
        real_plans.insert(pname.to_string(), p1);
    }
    let fp1 = full_fp(&world.runtime, &world.prov);
    if fp1 != fp0 || world.engine.verif_fingerprint() != engine_fp0 {
        f.violation("plan_not_pure", format!("{at}: compare/plan changed the runtime or provenance: {}", fp_diff(&fp0, &fp1)));
    }
    let plan = real_plans[&pol].clone();
    let n = plan.decisions.len() as u64;

    // --- a failure at every step restores everything (on clones of the pre-settlement state)
    for k in 1..=n {
        let mut rt = world.runtime.clone();
        let mut pv = world.prov.clone();
        rt.verif_set_global_tick(GlobalTick::from_raw(u64::MAX - (k - 1)));
        let before = full_fp(&rt, &pv);
        let res = util::catch(|| SettlementService::settle_with_policy(&mut rt, &mut pv, strand_id, &policy(&pol))).map_err(|p| format!("{at}: settle panicked under injected failure {k}: {p}"))?;
        st.fail_points += 1;
        match res {
            Ok(_) => f.drift(format!("{at}: injected global-tick overflow before decision {k} of {n} did not fail the settlement")),
            Err(_) => {
                let after = full_fp(&rt, &pv);
                if after != before {
                    f.violation("failed_settlement_not_restored", format!("{at}: failure at decision {k} of {n}: {}", fp_diff(&before, &after)));
                }
            }
        }
    }
    let plural_ids: Vec<[u8; 32]> = plan
        .decisions
        .iter()
        .filter_map(|d| if let SettlementDecision::PluralAlternative(p) = d { Some(p.plural_id) } else { None })
        .collect();
    let already_bound = plural_ids.iter().any(|pid| world.prov.braid_shell_for_plural(pid).is_some());
    let want_ok = step["ok"].as_bool().unwrap_or(true);
    if !want_ok {
        // the model expects the code's own refusal: a plural id of this plan is already bound to the shell
        // of an earlier settlement; the call must fail and restore everything
        let before = full_fp(&world.runtime, &world.prov);
        let res = util::catch(|| SettlementService::settle_with_policy(&mut world.runtime, &mut world.prov, strand_id, &policy(&pol)))
            .map_err(|p| format!("{at}: settle panicked: {p}"))?;
        match res {
            Ok(_) => f.violation("plural_artifact_rebound_to_second_shell", format!("{at}: re-settlement retained a second shell for an already bound plural id (bound before: {already_bound})")),
            Err(e) => {
                let after = full_fp(&world.runtime, &world.prov);
                if after != before {
                    f.violation("failed_settlement_not_restored", format!("{at}: refused re-settlement ({e:?}): {}", fp_diff(&before, &after)));
                }
            }
        }
        return check_snapshot(world, step, f, at);
    }
    if let Some(pid) = plural_ids.first().filter(|_| !already_bound) {
        // the shell step fails because the plural id is already bound to another retained shell
        let mut rt = world.runtime.clone();
        let mut pv = world.prov.clone();
        let dummy = BraidShell::assemble(
            wl(&target),
            plan.target_base_ref,
            vec![BraidShellMember {
                member_ref: BraidMemberRef::Revealed(make_strand_id("verif-c15-dummy-binder")),
                support_pin_digest: [1; 32],
                basis_digest: [2; 32],
                frontier_digest: [3; 32],
                footprint_digest: [4; 32],
                claim_digest: [5; 32],
                verdict: MemberVerdict::Plural,
                verdict_digest: [6; 32],
                posture: CausalPosture::AuthorOnly,
            }],
            [0xAB; 32],
            BraidShellOutcome::Plural { alternative_ids: vec![*pid] },
            CausalPosture::AuthorOnly,
        )
        .map_err(|e| format!("{at}: dummy shell: {e:?}"))?;
        pv.append_braid_shell(dummy).map_err(|e| format!("{at}: dummy shell append: {e:?}"))?;
        let before = full_fp(&rt, &pv);
        let res = SettlementService::settle_with_policy(&mut rt, &mut pv, strand_id, &policy(&pol));
        st.shell_fail += 1;
        match res {
            Ok(_) => f.drift(format!("{at}: pre-bound plural id did not fail the shell step")),
            Err(_) => {
                let after = full_fp(&rt, &pv);
                if after != before {
                    f.violation("failed_settlement_not_restored", format!("{at}: failure at the shell step: {}", fp_diff(&before, &after)));
                }
            }
        }
    }

    // --- the settlement itself (and once more on a clone: same input, same result)
    let lanes_before: BTreeMap<String, String> = world.live.iter().map(|x| (x.clone(), world.lane_fp(x))).collect();
    let vals_before = world.vals(&target)?;
    let len_before = world.len(&target)?;
    let shells_before: BTreeSet<[u8; 32]> = world.prov.braid_shells().map(|s| s.digest).collect();
    let registry_before = format!("{:?}", world.runtime.strands());
    // slots the parent wrote after the anchor, read from the parent's own history (not from the report)
    let mut real_moved: BTreeSet<String> = BTreeSet::new();
    for t in plan.basis_report.source_suffix_start_tick.as_u64()..len_before {
        let e = world.prov.entry(wl(&target), wt(t)).map_err(|e| format!("{at}: {e:?}"))?;
        if let Some(p) = e.patch.as_ref() {
            real_moved.extend(slot_set(&world.events, p.out_slots.iter(), true)?);
        }
    }
    let mut rt2 = world.runtime.clone();
    let mut pv2 = world.prov.clone();
    let twin = SettlementService::settle_with_policy(&mut rt2, &mut pv2, strand_id, &policy(&pol));
    let res = util::catch(|| SettlementService::settle_with_policy(&mut world.runtime, &mut world.prov, strand_id, &policy(&pol)))
        .map_err(|p| format!("{at}: settle panicked: {p}"))?;
    let result = match res {
        Ok(r) => r,
        Err(e) => {
            f.violation("settlement_failed", format!("{at}: {e:?}"));
            return Err("ABORT".into());
        }
    };
    match twin {
        Ok(t) if t == result && world.live.iter().all(|x| lane_fp(&rt2, &pv2, x) == world.lane_fp(x)) => {}
        _ => f.violation("settlement_not_deterministic", format!("{at}: settling a clone of the same state gave another result or state")),
    }
    if result.plan != plan {
        f.violation("settled_plan_differs_from_plan", format!("{at}"));
    }
    let (mut ni, mut nc, mut np) = (0u64, 0u64, 0u64);
    for d in &plan.decisions {
        match d {
            SettlementDecision::ImportCandidate(c) => {
                ni += 1;
                if c.overlap_revalidation.is_some() {
                    st.clean_overlap += 1;
                }
            }
            SettlementDecision::ConflictArtifact(c) => {
                nc += 1;
                if matches!(c.overlap_revalidation, Some(StrandOverlapRevalidation::Obstructed { .. })) {
                    st.obstructed += 1;
                }
            }
            SettlementDecision::PluralAlternative(_) => np += 1,
        }
    }
    st.imports += ni;
    st.conflicts += nc;
    st.plurals += np;
    // all of it: one entry per decision, in order, of the right kind; exactly one new shell (none for an empty plan)
    let len_after = world.len(&target)?;
    if len_after != len_before + n
        || result.appended_imports.len() as u64 != ni
        || result.appended_conflicts.len() as u64 != nc
        || result.appended_plurals.len() as u64 != np
    {
        f.violation("settlement_not_all", format!("{at}: {n} decisions, target grew from {len_before} to {len_after}, result lists {}/{}/{}",
            result.appended_imports.len(), result.appended_conflicts.len(), result.appended_plurals.len()));
    }
    let shells_after: BTreeSet<[u8; 32]> = world.prov.braid_shells().map(|s| s.digest).collect();
    let new_shells: Vec<[u8; 32]> = shells_after.difference(&shells_before).copied().collect();
    let shell_ok = if n == 0 { new_shells.is_empty() && result.braid_shell.is_none() } else { new_shells.len() == 1 && result.braid_shell == Some(new_shells[0]) };
    if !shell_ok || !shells_before.is_subset(&shells_after) {
        f.violation("settlement_shell_count", format!("{at}: {} new shells for {n} decisions, result {:?}", new_shells.len(), result.braid_shell.map(hex::encode)));
    }
    for x in lanes_before.keys() {
        if *x != target && world.lane_fp(x) != lanes_before[x] {
            f.violation("settlement_changed_other_lane", format!("{at}: lane {x} changed while settling {s} into {target}"));
        }
    }
    if format!("{:?}", world.runtime.strands()) != registry_before {
        f.violation("settlement_changed_registry", format!("{at}"));
    }
    // per appended entry: kind, and what it did to the slots
    let mut prev_vals = vals_before.clone();
    for (i, d) in plan.decisions.iter().enumerate() {
        let tick = len_before + i as u64;
        if tick >= len_after {
            break;
        }
        let e = world.prov.entry(wl(&target), wt(tick)).map_err(|e| format!("{at}: {e:?}"))?;
        let at_tick = world.prov.replay_worldline_state_at(wl(&target), &world.u0, wt(tick + 1)).map_err(|e| format!("{at}: target not replayable up to tick {}: {e:?}", tick + 1))?;
        let now_vals = project_slots(&at_tick);
        let kind_ok = match (d, &e.event_kind) {
            (SettlementDecision::ImportCandidate(c), ProvenanceEventKind::MergeImport { source_worldline, source_worldline_tick, .. }) => {
                *source_worldline == c.source_ref.worldline_id && *source_worldline_tick == c.source_ref.worldline_tick && *source_worldline == wl(&child)
            }
            (SettlementDecision::ConflictArtifact(_), ProvenanceEventKind::ConflictArtifact { .. }) => true,
            (SettlementDecision::PluralAlternative(_), ProvenanceEventKind::PluralArtifact { .. }) => true,
            _ => false,
        };
        if !kind_ok {
            f.violation("appended_entry_kind_differs_from_decision", format!("{at}: entry {tick}: {:?} for decision {}", e.event_kind, decision_kind(d)));
        }
        match d {
            SettlementDecision::ImportCandidate(c) => {
                let src_tick = c.source_ref.worldline_tick.as_u64();
                let src_entry = world.prov.entry(wl(&child), wt(src_tick)).map_err(|e| format!("{at}: {e:?}"))?;
                let src_patch = src_entry.patch.as_ref().ok_or("source entry without patch")?;
                let src_out = slot_set(&world.events, src_patch.out_slots.iter(), true)?;
                let (_, ov) = reval_parts(c.overlap_revalidation.as_ref());
                let ov = slot_set(&world.events, ov.iter(), false)?;
                let strand_after = project_slots(&world.prov.replay_worldline_state_at(wl(&child), &world.u0, wt(src_tick + 1)).map_err(|e| format!("{at}: child replay: {e:?}"))?);
                // every slot the entry wrote, overlapped or not: since /repo de1c2a1 a clean overlap requires
                // the parent to hold the strand's value on the overlapped slots as well
                let _ = &ov;
                for sl in src_out.iter() {
                    if now_vals[sl] != strand_after[sl] {
                        f.violation("imported_slot_not_strand_value", format!("{at}: import of {child}@{src_tick}: slot {sl} is {} on the parent, {} on the strand", now_vals[sl], strand_after[sl]));
                    }
                }
                // the oracle for "replays cleanly": the tick's program run on the parent basis has the imported effect
                if let Some(pi) = lane_progs.get(&(child.clone(), src_tick)) {
                    let p = &progs[*pi - 1];
                    let rerun = expected_effect(p, &prev_vals);
                    let model_lawful = want_plan["dec"][i]["lawful"].as_bool().unwrap_or(true);
                    if (rerun == now_vals) != model_lawful {
                        f.drift(format!("{at}: decision {i}: rerun oracle on real values says lawful={}, model says {model_lawful}", rerun == now_vals));
                    }
                    if rerun != now_vals {
                        st.unlawful += 1;
                        let class = if p.k == "copy" && prev_vals[&p.a] != strand_after[&p.a] { "stale_read" } else if now_vals == prev_vals { "strand_write_dropped" } else { "other" };
                        f.violation(
                            &format!("import_differs_from_rerun_on_parent:{class}"),
                            format!("{at}: import of {child}@{src_tick} ({} {} {} {}), revalidation {:?}: parent before {prev_vals:?}, after import {now_vals:?}, the tick run on the parent basis gives {rerun:?}; strand after its tick {strand_after:?}",
                                p.k, p.a, p.b, p.v, c.overlap_revalidation.as_ref().map(|r| reval_parts(Some(r)).0)),
                        );
                    }
                }
            }
            _ => {
                if now_vals != prev_vals || at_tick.state_root() != (if tick == 0 { world.u0.state_root() } else { world.prov.entry(wl(&target), wt(tick - 1)).map_err(|e| format!("{at}: {e:?}"))?.expected.state_root }) {
                    f.violation("retained_entry_changed_parent", format!("{at}: {} entry {tick} changed the parent: {prev_vals:?} -> {now_vals:?}", decision_kind(d)));
                }
            }
        }
        if json_vals(&want_plan["dec"][i]["sim"]) != now_vals {
            f.violation("lane_values_differ_from_model", format!("{at}: parent after settlement entry {tick}: real {now_vals:?}, model {:?}", json_vals(&want_plan["dec"][i]["sim"])));
        }
        prev_vals = now_vals;
    }
    // never overwrite: no slot the parent wrote after the anchor changed value
    let vals_after = world.vals(&target)?;
    for sl in &real_moved {
        if vals_after[sl] != vals_before[sl] {
            f.violation("parent_changed_slot_overwritten", format!("{at}: slot {sl} written by the parent after the anchor went {} -> {} during settlement", vals_before[sl], vals_after[sl]));
        }
    }
    // the parent (every lane) stays verifiable from its own history and equals its live state
    for x in world.live.clone() {
        let live = world.state(&x)?;
        match world.prov.replay_worldline_state(wl(&x), &world.u0) {
            Ok(r) => {
                if r.state_root() != live.state_root() || project_slots(&r) != project_slots(live) || r.tick_history().len() != live.tick_history().len() {
                    f.violation("lane_replay_differs_from_live", format!("{at}: lane {x}: replayed {:?} live {:?}", project_slots(&r), project_slots(live)));
                }
            }
            Err(e) => f.violation("lane_not_replayable", format!("{at}: lane {x}: {e:?}")),
        }
    }
    if step["nshells"].as_u64() != Some(world.prov.braid_shells().count() as u64) {
        f.violation("settlement_shell_count", format!("{at}: {} shells retained, model {}", world.prov.braid_shells().count(), step["nshells"]));
    }
    check_snapshot(world, step, f, at)
}

pub static TIMES: std::sync::Mutex<BTreeMap<String, (u64, u128)>> = std::sync::Mutex::new(BTreeMap::new());
fn timed<T>(name: &str, f: impl FnOnce() -> T) -> T {
    let t0 = std::time::Instant::now();
    let r = f();
    let mut g = TIMES.lock().unwrap_or_else(|p| p.into_inner());
    let e = g.entry(name.to_string()).or_insert((0, 0));
    e.0 += 1;
    e.1 += t0.elapsed().as_micros();
    r
}

pub fn check_case(v: &Value) -> Value {
    let progs: Vec<ProgJ> = match serde_json::from_value(v["prog"].clone()) {
        Ok(p) => p,
        Err(e) => return json!({"verdict":"tool_error","detail":format!("case parse: {e}")}),
    };
    let Some(steps) = v["steps"].as_array() else {
        return json!({"verdict":"tool_error","detail":"case without steps"});
    };
    let mut world = match timed("world_new", World::new) {
        Ok(w) => w,
        Err(e) => return json!({"verdict":"tool_error","detail":e}),
    };
    let mut f = Findings { list: Vec::new(), drift: Vec::new() };
    let mut st = Stats { ticks: 0, imports: 0, conflicts: 0, plurals: 0, clean_overlap: 0, obstructed: 0, unlawful: 0, fail_points: 0, shell_fail: 0, basis: BTreeSet::new() };
    let mut lane_progs: BTreeMap<(String, u64), usize> = BTreeMap::new();
    for (i, step) in steps.iter().enumerate() {
        let op = step["op"].as_str().unwrap_or("");
        let at = format!("step {i} ({op})");
        let r = match op {
            "tick" => {
                let w = step["w"].as_str().unwrap_or("").to_string();
                let tick = world.len(&w).unwrap_or(0);
                lane_progs.insert((w, tick), step["pi"].as_u64().unwrap_or(0) as usize);
                timed("tick", || do_tick(&mut world, step, &progs, &mut f, &mut st, &at))
            }
            "fork_refused" => timed("fork_refused", || do_fork_refused(&mut world, &mut f, &at).and_then(|()| check_snapshot(&world, step, &mut f, &at))),
            "fork" => {
                let r = timed("fork", || do_fork(&mut world, step, &mut f, &at));
                // the copied prefix carries the source's programs
                if let (Some(src), Some(child), Some(t)) = (step["src"].as_str(), step["child"].as_str(), step["t"].as_u64()) {
                    for k in 0..=t {
                        if let Some(pi) = lane_progs.get(&(src.to_string(), k)).copied() {
                            lane_progs.insert((child.to_string(), k), pi);
                        }
                    }
                }
                r
            }
            "pin" => do_pin(&mut world, step, &mut f, &at),
            "settle" => timed("settle", || do_settle(&mut world, step, &progs, &lane_progs, &mut f, &mut st, &at)),
            other => Err(format!("unknown step op {other}")),
        };
        match r {
            Err(e) if e == "ABORT" => break,
            // an error after the real code already broke the property is a consequence, not tool trouble
            Err(e) if !f.list.is_empty() => {
                f.drift(format!("behaviour abandoned after the violation: {e}"));
                break;
            }
            Err(e) => return json!({"verdict":"tool_error","detail":e}),
            Ok(()) => {}
        }
    }
    let stats = json!({"ticks": st.ticks, "imports": st.imports, "conflicts": st.conflicts, "plurals": st.plurals,
        "clean_overlap": st.clean_overlap, "obstructed": st.obstructed, "unlawful": st.unlawful,
        "fail_points": st.fail_points, "shell_fail": st.shell_fail, "basis": st.basis});
    if f.list.is_empty() {
        json!({"verdict":"ok","drift":f.drift,"stats":stats})
    } else {
        let fl: Vec<Value> = f.list.iter().map(|(k, d)| json!({"kind":k,"detail":d})).collect();
        json!({"verdict":"violation","findings":fl,"drift":f.drift,"stats":stats})
    }
}

pub fn run(args: &[String]) -> i32 {
    if args.len() < 2 {
        eprintln!("usage: echo-verif c15 <cases.ndjson> <results.ndjson>");
        return 2;
    }
    let mut out = util::Out::create(&args[1]);
    let (mut n, mut viol, mut tool) = (0u64, 0u64, 0u64);
    for (i, v) in util::read_lines(&args[0]) {
        let mut r = match util::catch(|| check_case(&v)) {
            Ok(r) => r,
            Err(p) => json!({"verdict":"tool_error","detail":format!("harness panicked: {p}")}),
        };
        r["i"] = json!(i);
        n += 1;
        match r["verdict"].as_str() {
            Some("violation") => viol += 1,
            Some("tool_error") => tool += 1,
            _ => {}
        }
        out.line(&r);
    }
    out.finish();
    println!("{}", json!({"cases":n,"violations":viol,"tool_errors":tool}));
    if std::env::var("VERIF_C15_TIMES").is_ok() {
        for (k, (c, us)) in TIMES.lock().unwrap_or_else(|p| p.into_inner()).iter() {
            eprintln!("time {k}: {c} calls, {} ms", us / 1000);
        }
    }
    if tool > 0 { 2 } else { 0 }
}
