------------------------------- MODULE WalSeg -------------------------------
(***************************************************************************)
(* Segmented write-ahead log (growth of Wal.tla for C11 / C10): a log is a *)
(* directory of segment FILES (each a sequence of disk records), a         *)
(* published manifest and a writer-epoch ledger holding one retained       *)
(* closed epoch and the active one.                                        *)
(*                                                                         *)
(* Transcribed from crates/warp-core/src/causal_wal.rs                     *)
(*   FilesystemWalStore::{open, acquire_writer_epoch, append_transaction,  *)
(*     flush_commit_with_capabilities, rotate_segment, seal_segment,       *)
(*     publish_manifest, close_epoch, retain_latest_closed_writer_epoch},  *)
(*   segment_paths / segment_scan_roots / parse_segment_id,                *)
(*   read_filesystem_segments (per-file read, LSN sort of the union),      *)
(*   read_segment_bytes (via Wal!ReadSeg), recover_filesystem_store,       *)
(*   doctor_filesystem_store, validate_filesystem_manifest,                *)
(*   project_filesystem_wal_recovery / project_wal_recovery,               *)
(*   filesystem_wal_recovery_segment_evidence, segment_digest,             *)
(*   decode_writer_epoch_ledger, validate_writer_epoch_request,            *)
(*   reconcile_writer_epoch_closures.                                      *)
(*                                                                         *)
(* Part A: records, files, the writer's operations as state functions      *)
(*         (Acquire / AppendTx / Rotate / CloseEpoch / PublishManifest)    *)
(*         and the lifecycle state machine built from them.                *)
(* Part B: the entry points as built (recovery over several files,         *)
(*         doctor, manifest validation, projection, open + ledger          *)
(*         cross-check) and the declarative oracles.                       *)
(* Part C: the edits that only exist with several segments / a manifest /  *)
(*         several epochs.                                                 *)
(*                                                                         *)
(* Abstractions: hashes are identities (Wal.tla); a frame carries the      *)
(* segment id of its header (`sid`); the manifest's caller-chosen          *)
(* manifest_digest is a tag bound to nothing; a writer epoch is            *)
(* [id, start, prevId, prevC, fin, finC] with fin = final LSN + 1          *)
(* (0 = no commit recorded) and finC the final commit identity.            *)
(***************************************************************************)
EXTENDS Wal

NoC == <<"none">>          \* Option::None for a commit digest

\* ---------------------------------------------------------------------------------------
\* Part A - records, files, writer operations
\* ---------------------------------------------------------------------------------------
SFrame(src, t, k, lsn, epo, prev, sid) ==
  [kind |-> "frame", src |-> src, tx |-> t, idx |-> k, lsn |-> lsn, first |-> 0, ep |-> epo,
   prev |-> prev, dmg |-> "ok", ext |-> X, sid |-> sid]
SCommit(src, t, n, first, last, epo, prev) ==
  [kind |-> "commit", src |-> src, tx |-> t, idx |-> n, lsn |-> last, first |-> first, ep |-> epo,
   prev |-> prev, dmg |-> "ok", ext |-> X, sid |-> 0]

\* a segment file: segments/segment-<id>.ecwal, or (root = TRUE) the same name in the WAL root,
\* which segment_scan_roots also scans
File(id, recs) == [id |-> id, root |-> FALSE, recs |-> recs]
Epoch(id, start, prevId, prevC) ==
  [id |-> id, start |-> start, prevId |-> prevId, prevC |-> prevC, fin |-> 0, finC |-> NoC]

\* The writer (one FilesystemWalStore + its caller's cursor).  man and led.active are sequences of
\* length 0 or 1 (Option).
W0(src) ==
  [files |-> <<File(1, <<>>)>>, man |-> <<>>, led |-> [closed |-> <<>>, active |-> <<>>],
   cur |-> 1, next |-> 0, lastF |-> <<"gen">>, lastC |-> <<"gen">>, src |-> src, txn |-> 1, eps |-> 0]

\* acquire_writer_epoch: the request names the retained closed epoch and its final commit digest
DoAcquire(w, eid) ==
  LET cl == w.led.closed
      prev == IF Len(cl) = 0 THEN 0 ELSE cl[Len(cl)].id
      prevC == IF Len(cl) = 0 THEN NoC ELSE cl[Len(cl)].finC
  IN [w EXCEPT !.led.active = <<Epoch(eid, w.next, prev, prevC)>>, !.eps = @ + 1]

\* append_transaction: nf frames into the ACTIVE segment file, then the commit marker (synced),
\* then the ledger records the epoch's newest commit
DoAppendTx(w, nf) ==
  LET t == w.txn
      a == w.led.active[1]
      base == w.next
      fr == [k \in 1..nf |->
               SFrame(w.src, t, k, base + k - 1, a.id,
                      IF k = 1 THEN w.lastF ELSE <<"f", w.src, t, k - 1, base + k - 2>>, w.cur)]
      c == SCommit(w.src, t, nf, base, base + nf - 1, a.id, w.lastC)
  IN [w EXCEPT !.files[w.cur].recs = @ \o fr \o <<c>>,
               !.next = base + nf, !.lastF = FrameId(fr[nf]), !.lastC = CommitId(c), !.txn = t + 1,
               !.led.active = <<[a EXCEPT !.fin = base + nf, !.finC = CommitId(c)]>>]

\* rotate_segment: seal_segment computes a digest (nothing is written), the next canonical file is
\* created empty and becomes the active one
DoRotate(w) == [w EXCEPT !.files = Append(@, File(w.cur + 1, <<>>)), !.cur = w.cur + 1]
\* close_epoch + retain_latest_closed_writer_epoch (WAL_WRITER_EPOCH_RETAINED_CLOSED_LIMIT = 1)
DoClose(w) == [w EXCEPT !.led = [closed |-> <<w.led.active[1]>>, active |-> <<>>]]
\* publish_manifest with the values a caller derives from the store it just wrote
ManifestFor(w) ==
  [tag |-> "m", fin |-> w.next, lastC |-> (IF w.next = 0 THEN NoC ELSE w.lastC), count |-> Len(w.files)]
DoPublish(w) == [w EXCEPT !.man = <<ManifestFor(w)>>]

\* A scripted log: segment s holds layout[s] transactions of nf frames written under epoch
\* eids[eos[s]]; a change of epoch happens right after a rotation; the manifest is published last.
RECURSIVE AppendN(_, _, _)
AppendN(w, n, nf) == IF n = 0 THEN w ELSE AppendN(DoAppendTx(w, nf), n - 1, nf)
RECURSIVE ScriptFrom(_, _, _, _, _, _)
ScriptFrom(w, s, eids, layout, eos, nf) ==
  IF s > Len(layout) THEN DoPublish(w)
  ELSE LET w1 == IF s = 1 THEN DoAcquire(w, eids[eos[1]])
                 ELSE LET r == DoRotate(w)
                      IN IF eos[s] # eos[s - 1] THEN DoAcquire(DoClose(r), eids[eos[s]]) ELSE r
       IN ScriptFrom(AppendN(w1, layout[s], nf), s + 1, eids, layout, eos, nf)
BuildSegLog(src, eids, layout, eos, nf) == ScriptFrom(W0(src), 1, eids, layout, eos, nf)

\* what is on disk
Disk(w) == [files |-> w.files, man |-> w.man, led |-> w.led]

RECURSIVE ConcatRecs(_, _)
ConcatRecs(fs, i) == IF i > Len(fs) THEN <<>> ELSE fs[i].recs \o ConcatRecs(fs, i + 1)
AllRecs(fs) == ConcatRecs(fs, 1)

\* ---------------------------------------------------------------------------------------
\* Part B - entry points as built
\* ---------------------------------------------------------------------------------------
\* segment_paths: every segment-*.ecwal under segments/ and under the root, sorted by id; the first
\* must be 1, ids consecutive, no id twice (SegmentGap / DuplicateSegment)
SortedFiles(fs) == SortSeq(fs, LAMBDA a, b : a.id < b.id)
PathsOk(fs) ==
  LET so == SortedFiles(fs)
  IN Len(so) = 0 \/ (so[1].id = 1 /\ \A i \in 1..(Len(so) - 1) : so[i + 1].id = so[i].id + 1)

\* read_filesystem_segments reads every file with read_segment_bytes: a torn tail (or a length
\* field pointing past the end of ITS file) ends the reading of that file only; the frames and
\* commits of all files are united and sorted by LSN; any_torn_tail is the disjunction.
\* Virtual(fs) is one record sequence on which Wal!ReadSeg / Wal!Scan(_, "fs") behave exactly like
\* that: the readable part of every file, then one torn marker iff some file had a torn tail.
IsStop(r) == r.kind = "torn" \/ r.dmg = "len_big"
RECURSIVE ReadableFrom(_, _)
ReadableFrom(s, i) ==
  IF i > Len(s) THEN <<>> ELSE IF IsStop(s[i]) THEN <<>> ELSE <<s[i]>> \o ReadableFrom(s, i + 1)
Readable(s) == ReadableFrom(s, 1)
HasStop(s) == Len(Readable(s)) < Len(s)
RECURSIVE ConcatReadable(_, _)
ConcatReadable(fs, i) == IF i > Len(fs) THEN <<>> ELSE Readable(fs[i].recs) \o ConcatReadable(fs, i + 1)
Virtual(fs) ==
  LET so == SortedFiles(fs)
  IN ConcatReadable(so, 1) \o (IF \E i \in 1..Len(so) : HasStop(so[i].recs) THEN <<Torn(1)>> ELSE <<>>)

ScanErr == [ok |-> FALSE, h |-> <<>>, tail |-> FALSE]
SortedCommits(fs) == SortSeq(ReadSeg(Virtual(fs)).commits, LAMBDA a, b : a.lsn < b.lsn)
SortedFrames(fs) == SortSeq(ReadSeg(Virtual(fs)).frames, LAMBDA a, b : a.lsn < b.lsn)
\* recover_from_frames_and_commits since /repo e8a1c7e (partial repair of F13): the commit markers
\* must TILE the frame LSN range - the first starts at the lowest frame LSN, every later one at the
\* previous commit's last LSN + 1 (LsnContinuityMismatch otherwise).  Wal!Scan predates that commit,
\* so the rule is added here; it is idempotent should Wal!Scan gain it too.
TilesOk(fr, cm) ==
  \A i \in 1..Len(cm) : cm[i].first = (IF i = 1 THEN fr[1].lsn ELSE cm[i - 1].lsn + 1)
\* recover_filesystem_store(root, ReadOnly)
FsScan(fs) ==
  IF ~PathsOk(fs) THEN ScanErr
  ELSE LET sc == Scan(Virtual(fs), "fs")
       IN IF sc.ok /\ Len(sc.h) > 0 /\ ~TilesOk(SortedFrames(fs), SortedCommits(fs)) THEN ScanErr ELSE sc
\* doctor_filesystem_store: Obstructed iff the scan fails; otherwise the number of transactions
DoctorOf(fs) == LET sc == FsScan(fs) IN [class |-> IF sc.ok THEN "ok" ELSE "err", n |-> Len(sc.h)]

LastFin(cm) == IF Len(cm) = 0 THEN 0 ELSE cm[Len(cm)].lsn + 1
LastCid(cm) == IF Len(cm) = 0 THEN NoC ELSE CommitId(cm[Len(cm)])

\* validate_filesystem_manifest: reads the files (no transaction validation), refuses a torn or
\* uncommitted tail, then compares segment-file count, last committed LSN, last commit digest
ManifestClass(fs, man) ==
  IF Len(man) = 0 THEN "err"
  ELSE IF ~PathsOk(fs) THEN "err"
  ELSE LET rd == ReadSeg(Virtual(fs))
           cm == SortedCommits(fs)
           m == man[1]
       IN IF rd.err \/ rd.torn THEN "err"
          ELSE IF \E i \in 1..Len(rd.frames) : rd.frames[i].lsn + 1 > LastFin(cm) THEN "err"
          ELSE IF m.count # Len(fs) THEN "err"
          ELSE IF m.fin # LastFin(cm) THEN "err"
          ELSE IF m.lastC # LastCid(cm) THEN "err"
          ELSE "ok"
\* oracle: a manifest describes the files present iff it is what PublishManifest would write for them
ManifestDescribes(fs, man) ==
  /\ Len(man) = 1 /\ PathsOk(fs)
  /\ LET cm == SelectSeq(AllRecs(SortedFiles(fs)), LAMBDA r : r.kind = "commit" /\ r.dmg = "ok")
     IN /\ man[1].count = Len(fs)
        /\ \A i \in 1..Len(cm) : cm[i].lsn + 1 <= man[1].fin
        /\ (Len(cm) = 0 => man[1].fin = 0 /\ man[1].lastC = NoC)
        /\ (Len(cm) > 0 => \E i \in 1..Len(cm) : cm[i].lsn + 1 = man[1].fin /\ CommitId(cm[i]) = man[1].lastC)

\* project_filesystem_wal_recovery(root, report of recover_filesystem_store, writer-epoch evidence
\* `known`, no certificate): Present only if the tail is clean, the manifest validates, every
\* recovered transaction lies in ONE segment (header ids), its epoch has evidence, and for every
\* segment id used the FILE with that id holds exactly the recovered frames (segment_digest), is
\* sealed at or beyond the last recovered LSN and holds one epoch only.
RECURSIVE FramesOfSid(_, _, _, _)
FramesOfSid(fr, cm, sid, i) ==
  IF i > Len(cm) THEN <<>>
  ELSE SelectSeq(TxFrames(fr, cm[i]), LAMBDA f : f.sid = sid) \o FramesOfSid(fr, cm, sid, i + 1)
FileFrames(f) == SelectSeq(f.recs, LAMBDA r : r.kind = "frame")
IdsOf(s) == [i \in 1..Len(s) |-> <<s[i].src, s[i].tx, s[i].idx, s[i].lsn, s[i].sid>>]
MaxLsn(s) == IF Len(s) = 0 THEN 0 ELSE LET so == SortSeq(s, LAMBDA a, b : a.lsn < b.lsn) IN so[Len(so)].lsn + 1
ProjClass(fs, man, known) ==
  LET sc == FsScan(fs) IN
  IF ~sc.ok THEN "noreport"
  ELSE IF sc.tail THEN "obstructed"
  ELSE IF ManifestClass(fs, man) # "ok" THEN "obstructed"
  ELSE LET fr == SortedFrames(fs)
           cm == SortedCommits(fs)
           sidsOf(c) == {f.sid : f \in {TxFrames(fr, c)[p] : p \in 1..Len(TxFrames(fr, c))}}
           used == UNION {sidsOf(cm[i]) : i \in 1..Len(cm)}
           fileOf(sid) == CHOOSE i \in 1..Len(fs) : fs[i].id = sid
           group(sid) == SelectSeq(cm, LAMBDA c : sidsOf(c) = {sid})
       IN IF \E i \in 1..Len(cm) : Cardinality(sidsOf(cm[i])) # 1 THEN "obstructed"
          ELSE IF \E i \in 1..Len(cm) : cm[i].ep \notin known THEN "obstructed"
          ELSE IF \E sid \in used : ~\E i \in 1..Len(fs) : fs[i].id = sid THEN "obstructed"
          ELSE IF \E sid \in used :
                    \/ MaxLsn(FileFrames(fs[fileOf(sid)])) < MaxLsn(group(sid))
                    \/ IdsOf(FileFrames(fs[fileOf(sid)])) # IdsOf(FramesOfSid(fr, cm, sid, 1))
                    \/ Cardinality({group(sid)[p].ep : p \in 1..Len(group(sid))}) > 1
               THEN "obstructed"
          ELSE "present"

\* decode_writer_epoch_ledger + validate_writer_epoch_request(None, closed, closures, active)
ClosureOk(e) == (e.fin > 0) = (e.finC # NoC)
RequestOk(closed, a) ==
  /\ \A i \in 1..Len(closed) : closed[i].id # a.id
  /\ IF a.prevId # 0
     THEN /\ Len(closed) > 0
          /\ LET p == closed[Len(closed)]
             IN /\ p.id = a.prevId
                /\ a.prevC = p.finC
                /\ (IF p.fin > 0 THEN a.start >= p.fin ELSE a.start > p.start)
     ELSE Len(closed) = 0
DecodeOk(led) ==
  /\ Len(led.closed) <= 1
  /\ \A i \in 1..Len(led.closed) : ClosureOk(led.closed[i])
  /\ (Len(led.active) = 1 => ClosureOk(led.active[1]) /\ RequestOk(led.closed, led.active[1]))

\* reconcile_writer_epoch_closures: every commit marker on disk must have been written under an epoch
\* the ledger names, or end below the start of the retained window (= the FIRST retained closed
\* epoch, else the active one)
KnownEpochs(led) == {led.closed[i].id : i \in 1..Len(led.closed)} \cup {led.active[i].id : i \in 1..Len(led.active)}
RetainedStart(led) == IF Len(led.closed) > 0 THEN led.closed[1].start ELSE led.active[1].start
Admits(led, cm) ==
  IF Len(led.closed) = 0 /\ Len(led.active) = 0 THEN Len(cm) = 0
  ELSE \A i \in 1..Len(cm) : cm[i].ep \in KnownEpochs(led) \/ cm[i].lsn < RetainedStart(led)
\* oracle (independent wording): nothing the ledger claims to cover was written by a stranger; what it
\* claims to cover starts at the lowest start LSN of any epoch it names
AdmitsDecl(led, cm) ==
  LET eps == {led.closed[i] : i \in 1..Len(led.closed)} \cup {led.active[i] : i \in 1..Len(led.active)}
  IN \A i \in 1..Len(cm) :
       \/ \E e \in eps : e.id = cm[i].ep
       \/ (eps # {} /\ \A e \in eps : cm[i].lsn < e.start)

\* FilesystemWalStore::open(root, active): creates the active segment file when it is missing,
\* reads the ledger, reads all segment files (a torn tail is not an error here) and reconciles
OpenFiles(fs, active) ==
  IF \E i \in 1..Len(fs) : fs[i].id = active /\ ~fs[i].root THEN fs ELSE Append(fs, File(active, <<>>))
OpenClass(fs, led, active) ==
  LET fo == OpenFiles(fs, active) IN
  IF ~DecodeOk(led) THEN "err"
  ELSE IF ~PathsOk(fo) THEN "err"
  ELSE IF ReadSeg(Virtual(fo)).err THEN "err"
  ELSE IF Admits(led, SortedCommits(fo)) THEN "ok" ELSE "err"

\* ---------------------------------------------------------------------------------------
\* lifecycle state machine (uncorrupted store): every reachable store is recoverable, opens, and
\* its manifest validates exactly when it describes the files
\* ---------------------------------------------------------------------------------------
CONSTANTS LifeMaxSeg, LifeMaxTx, LifeMaxEp, LifeNF
VARIABLE w
LInit == Init /\ w = W0("A")
LAcquire == Len(w.led.active) = 0 /\ w.eps < LifeMaxEp /\ w' = DoAcquire(w, w.eps + 1)
LAppend == Len(w.led.active) = 1 /\ w.txn <= LifeMaxTx /\ w' = DoAppendTx(w, LifeNF)
LRotate == Len(w.led.active) = 1 /\ Len(w.files) < LifeMaxSeg /\ w' = DoRotate(w)
\* (an epoch that recorded no commit makes its successor start one LSN late: finding F11 of C10;
\*  the lifecycle closes only epochs that committed)
LClose == Len(w.led.active) = 1 /\ w.led.active[1].fin > 0 /\ w' = DoClose(w)
LPublish == Len(w.led.active) = 1 /\ w' = DoPublish(w)
LNext == (LAcquire \/ LAppend \/ LRotate \/ LClose \/ LPublish) /\ UNCHANGED vars
LSpec == LInit /\ [][LNext]_<<vars, w>>

Inv_LifeRecovers ==
  LET sc == FsScan(w.files) IN sc.ok /\ ~sc.tail /\ sc.h = Durable(AllRecs(w.files))
Inv_LifeOpens == OpenClass(w.files, w.led, w.cur) = "ok" /\ AdmitsDecl(w.led, SortedCommits(w.files))
Inv_LifeManifest ==
  /\ (ManifestClass(w.files, w.man) = "ok") = ManifestDescribes(w.files, w.man)
  /\ (Len(w.man) = 1 /\ w.man[1] = ManifestFor(w) => ManifestClass(w.files, w.man) = "ok")
\* projection of a store whose segments each hold one epoch: present exactly when the manifest is current
Inv_LifeProjection ==
  LET known == {i : i \in 1..LifeMaxEp} IN
    ProjClass(w.files, w.man, known) = "present" => ManifestDescribes(w.files, w.man)

\* ---------------------------------------------------------------------------------------
\* Part C - edits of a committed segmented log
\* ---------------------------------------------------------------------------------------
\* P = Disk(pristine), oth[src] = Disk of another log with the same shape (same LSNs), e the edit:
\*   [k, s, i, t, region, src, v]
SegRegions == Regions \cup {"magic_zero"}   \* all-zero magic: rejected like any other wrong magic
LastOf(s) == s[Len(s)]
FrontOf(s) == SubSeq(s, 1, Len(s) - 1)
RecsAt(P, s) == P.files[s].recs
Renumber(f) == [j \in 1..Len(f) |-> [f[j] EXCEPT !.id = j]]
PrevCommit(P, back) ==   \* the commit marker `back` positions before the last one
  LET cm == SelectSeq(AllRecs(P.files), LAMBDA r : r.kind = "commit") IN cm[Len(cm) - back]

ApplySegEdit(P, oth, e) ==
  LET NS == Len(P.files)
      a == RecsAt(P, e.s)
      b == IF e.s < NS THEN RecsAt(P, e.s + 1) ELSE <<>>
  IN
  CASE e.k = "damage"        -> [P EXCEPT !.files[e.s].recs[e.i].dmg = e.region]
    [] e.k = "truncate"      -> [P EXCEPT !.files[e.s].recs = PrefixBytes(a, e.i)]
    [] e.k = "delete"        -> [P EXCEPT !.files[e.s].recs = RemoveAt(a, e.i)]
    \* a copy of the last commit marker of segment s at the front of segment s+1 / at the end of the log
    [] e.k = "dup_commit_fwd" -> [P EXCEPT !.files[e.s + 1].recs = <<LastOf(a)>> \o b]
    [] e.k = "dup_commit_end" -> [P EXCEPT !.files[NS].recs = RecsAt(P, NS) \o <<LastOf(a)>>]
    \* one record / one whole transaction moved across the boundary between segments s and s+1
    [] e.k = "move_fwd"      -> [P EXCEPT !.files[e.s].recs = FrontOf(a), !.files[e.s + 1].recs = <<LastOf(a)>> \o b]
    [] e.k = "move_back"     -> [P EXCEPT !.files[e.s].recs = Append(a, Head(b)), !.files[e.s + 1].recs = Tail(b)]
    [] e.k = "move_tx_fwd"   -> LET t == LastOf(a).tx IN
                                [P EXCEPT !.files[e.s].recs = SelectSeq(a, LAMBDA r : r.tx # t),
                                          !.files[e.s + 1].recs = SelectSeq(a, LAMBDA r : r.tx = t) \o b]
    [] e.k = "move_tx_back"  -> LET t == Head(b).tx IN
                                [P EXCEPT !.files[e.s].recs = a \o SelectSeq(b, LAMBDA r : r.tx = t),
                                          !.files[e.s + 1].recs = SelectSeq(b, LAMBDA r : r.tx # t)]
    \* whole segment files
    [] e.k = "delete_segment"          -> [P EXCEPT !.files = RemoveAt(P.files, e.s)]
    [] e.k = "delete_segment_renumber" -> [P EXCEPT !.files = Renumber(RemoveAt(P.files, e.s))]
    [] e.k = "duplicate_segment"       -> [P EXCEPT !.files = Append(@, [P.files[e.s] EXCEPT !.id = NS + 1])]
    [] e.k = "duplicate_segment_root"  -> [P EXCEPT !.files = Append(@, [P.files[e.s] EXCEPT !.root = TRUE])]
    [] e.k = "swap_segments"           -> [P EXCEPT !.files[e.s].recs = RecsAt(P, e.i), !.files[e.i].recs = a]
    [] e.k = "append_empty_segment"    -> [P EXCEPT !.files = Append(@, File(NS + 1, <<>>))]
    [] e.k = "replace_segment"         -> [P EXCEPT !.files[e.s].recs = oth[e.src].files[e.s].recs]
    \* whole transactions
    [] e.k = "delete_tx"     -> [P EXCEPT !.files = [j \in 1..NS |-> [P.files[j] EXCEPT !.recs = SelectSeq(@, LAMBDA r : r.tx # e.t)]]]
    [] e.k = "transplant_tx" -> [P EXCEPT !.files = [j \in 1..NS |-> [P.files[j] EXCEPT !.recs =
                                   [p \in 1..Len(P.files[j].recs) |->
                                      IF P.files[j].recs[p].tx = e.t THEN oth[e.src].files[j].recs[p] ELSE P.files[j].recs[p]]]]]
    \* manifest fields
    [] e.k = "man_count"     -> [P EXCEPT !.man[1].count = e.i]
    [] e.k = "man_fin"       -> [P EXCEPT !.man[1].fin = e.i]
    [] e.k = "man_lastc"     -> [P EXCEPT !.man[1].lastC = IF e.v = "prev" THEN CommitId(PrevCommit(P, 1)) ELSE <<"c", "Z", 99>>]
    [] e.k = "man_prev_commit" -> [P EXCEPT !.man[1].fin = PrevCommit(P, 1).lsn + 1, !.man[1].lastC = CommitId(PrevCommit(P, 1))]
    [] e.k = "man_tag"       -> [P EXCEPT !.man[1].tag = "x"]
    [] e.k = "man_deleted"   -> [P EXCEPT !.man = <<>>]
    [] e.k = "man_from"      -> [P EXCEPT !.man = oth[e.src].man]
    \* ledger
    [] e.k = "led_deleted"      -> [P EXCEPT !.led = [closed |-> <<>>, active |-> <<>>]]
    [] e.k = "led_drop_active"  -> [P EXCEPT !.led.active = <<>>]
    [] e.k = "led_drop_closed"  -> [P EXCEPT !.led.closed = <<>>]
    [] e.k = "led_swap"         -> [P EXCEPT !.led = [closed |-> P.led.active, active |-> P.led.closed]]
    [] e.k = "led_closed_start" -> [P EXCEPT !.led.closed[1].start = e.i]
    [] e.k = "led_active_start" -> [P EXCEPT !.led.active[1].start = e.i]
    [] e.k = "led_closed_id"    -> [P EXCEPT !.led.closed[1].id = 77]
    [] e.k = "led_active_id"    -> [P EXCEPT !.led.active[1].id = 77]
    [] e.k = "led_closed_fin"   -> [P EXCEPT !.led.closed[1].fin = e.i]
    [] e.k = "led_closed_finc"  -> [P EXCEPT !.led.closed[1].finC = <<"c", "Z", 99>>]
    [] e.k = "led_active_prevc" -> [P EXCEPT !.led.active[1].prevC = <<"c", "Z", 99>>]
    [] e.k = "led_active_previd" -> [P EXCEPT !.led.active[1].prevId = e.i]
    [] e.k = "led_active_half_closure" -> [P EXCEPT !.led.active[1].finC = NoC]
    [] e.k = "led_older"        -> [P EXCEPT !.led.active[1].fin = 0, !.led.active[1].finC = NoC]
    [] e.k = "led_from"         -> [P EXCEPT !.led = oth[e.src].led]
    [] e.k = "intact"           -> P
=============================================================================
