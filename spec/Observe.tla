------------------------------- MODULE Observe -------------------------------
(***************************************************************************)
(* The observable part of the worldline runtime and the read path.        *)
(*                                                                         *)
(* Transcribed from                                                        *)
(*   crates/warp-core/src/observation.rs  ObservationService::observe,     *)
(*       validate_frame_projection, validate_observer_contract,            *)
(*       validate_query_observer_contract, resolve_coordinate,             *)
(*       witness_refs / witness_commit_tick, basis_posture, budget_posture,*)
(*       observe_optic_inner, validate_optic_budget,                       *)
(*       attachment_boundary_obstruction, optic_observation_request,       *)
(*       optic_coordinate_at, optic_observation_error,                     *)
(*       checkpoint_plus_tail_witness_basis / artifact_witness_basis       *)
(*   crates/warp-core/src/strand.rs       Strand::live_basis_report        *)
(*   crates/warp-core/src/coordinator.rs  super_tick (commit + global tick)*)
(*       fork_strand; provenance_store.rs fork / checkpoint_before         *)
(*                                                                         *)
(* Runtime state (everything a reading may depend on):                     *)
(*   known      registered worldlines                                      *)
(*   hist[w]    recorded history: sequence of entries                      *)
(*              [root, commit, cgt, outs, reads, writes]; entry i (1-based)*)
(*              is worldline tick i-1.  root / commit / outs are abstract  *)
(*              values (real hashes in a trace); reads / writes are the    *)
(*              patch in_slots / out_slots (sets of abstract slots)        *)
(*   init[w]    snapshot of the empty frontier [root, commit]              *)
(*   gt         global tick (number of completed scheduler passes)         *)
(*   strand[w]  [parent, anchor] for a fork child, parent = "" otherwise   *)
(*   ckpt[w]    cursor ticks at which a replay checkpoint is stored        *)
(*                                                                         *)
(* Sentinels: -1 = absent number, "" = absent string (TLC cannot compare   *)
(* values of different types, so no model value is used in readings).      *)
(*                                                                         *)
(* Reading(req, plen) / OpticReading(o, plen) are FUNCTIONS of this state. *)
(* plen is the CBOR wire length of the payload: it is outside the model    *)
(* (taken from the implementation; the trace spec requires it to be a      *)
(* function of the payload) and matters only for bounded budgets.          *)
(***************************************************************************)
EXTENDS Integers, Sequences, FiniteSets, TLC

VARIABLES known, hist, init, gt, strand, ckpt
rt == <<known, hist, init, gt, strand, ckpt>>

Ext(f, k, v) == [x \in (DOMAIN f) \cup {k} |-> IF x = k THEN v ELSE f[x]]
ToSet(s)     == {s[i] : i \in 1..Len(s)}
MaxOf(S)     == CHOOSE x \in S : \A y \in S : y <= x
NoStrand     == [parent |-> "", anchor |-> -1]
EmptyFn      == [x \in {} |-> 0]

\* Harness convention: exactly one contract query observer is installed (query id 9001,
\* authored plan "authored:installed").  Its behaviour is a function of (query id, vars,
\* resolved tick, state root): vars "fail" / "badvars" => the observer returns an error,
\* vars "residual" => residual posture, anything else => complete.
InstalledQ == {9001}
OpticMetadataMinBytes == 128      \* OPTIC_METADATA_APERTURE_MIN_BYTES

RtInit == /\ known = {} /\ hist = EmptyFn /\ init = EmptyFn /\ gt = 0
          /\ strand = EmptyFn /\ ckpt = EmptyFn

--------------------------------------------------------------------------------
(* Actions that change the runtime                                          *)

\* WorldlineRuntime::register_worldline + ProvenanceService::register_worldline (empty history)
Register(w, r0, c0) ==
  /\ w \notin known
  /\ known' = known \cup {w}
  /\ hist' = Ext(hist, w, <<>>)
  /\ init' = Ext(init, w, [root |-> r0, commit |-> c0])
  /\ strand' = Ext(strand, w, NoStrand)
  /\ ckpt' = Ext(ckpt, w, {})
  /\ UNCHANGED gt

\* one appended provenance entry (append_local_commit) + frontier advance
Commit(w, e) ==
  /\ w \in known
  /\ hist' = [hist EXCEPT ![w] = Append(@, e)]
  /\ UNCHANGED <<known, init, gt, strand, ckpt>>

\* a commit made by the running scheduler pass: stamped with the NEXT global tick
LiveCommit(w, e) == e.cgt = gt + 1 /\ Commit(w, e)

\* end of a scheduler pass: `runtime.global_tick = next_global_tick` (also for an idle pass)
Tick == gt' = gt + 1 /\ UNCHANGED <<known, hist, init, strand, ckpt>>

\* WorldlineRuntime::fork_strand: prefix copy 0..t, checkpoints <= t+1, strand registered
Fork(p, t, c) ==
  /\ p \in known /\ c \notin known
  /\ t >= 0 /\ t < Len(hist[p])
  /\ known' = known \cup {c}
  /\ hist' = Ext(hist, c, SubSeq(hist[p], 1, t + 1))
  /\ init' = Ext(init, c, init[p])
  /\ strand' = Ext(strand, c, [parent |-> p, anchor |-> t])
  /\ ckpt' = Ext(ckpt, c, {k \in ckpt[p] : k <= t + 1})
  /\ UNCHANGED gt

\* ProvenanceService::checkpoint at cursor tick c (state after entries 0..c-1)
Checkpoint(w, c) ==
  /\ w \in known /\ c >= 0 /\ c <= Len(hist[w])
  /\ ckpt' = [ckpt EXCEPT ![w] = @ \cup {c}]
  /\ UNCHANGED <<known, hist, init, gt, strand>>

--------------------------------------------------------------------------------
(* ObservationService::observe                                              *)

ValidPair(f, p) == <<f, p>> \in {<<"CB", "head">>, <<"CB", "snapshot">>, <<"RT", "truth">>, <<"QV", "query">>}

BuiltinPlanFor(f, p) ==
  CASE f = "CB" /\ p = "head"     -> "CommitBoundaryHead"
    [] f = "CB" /\ p = "snapshot" -> "CommitBoundarySnapshot"
    [] f = "RT" /\ p = "truth"    -> "RecordedTruthChannels"
    [] f = "QV" /\ p = "query"    -> "QueryBytes"
    [] OTHER                      -> ""

\* validate_observer_contract / validate_query_observer_contract; "" = accepted
ContractErr(q) ==
  IF q.frame = "QV" /\ q.proj = "query"
  THEN IF q.qid \notin InstalledQ THEN "UnsupportedQuery"
       ELSE IF q.plan \notin {"QueryBytes", "authored:installed"} THEN "UnsupportedObserverPlan"
       ELSE IF q.inst THEN "UnsupportedObserverInstance"
       ELSE IF q.rights = "cap" THEN "UnsupportedRights"
       ELSE ""
  ELSE IF q.plan # BuiltinPlanFor(q.frame, q.proj) THEN "UnsupportedObserverPlan"
       ELSE IF q.inst THEN "UnsupportedObserverInstance"
       ELSE IF q.rights = "cap" THEN "UnsupportedRights"
       ELSE ""

OAG == IF gt = 0 THEN -1 ELSE gt      \* observed_after_global_tick: the READ time

RErr(e) == [err |-> e, rtick |-> -1, cgt |-> -1, root |-> "", commit |-> "", ei |-> 0]

\* resolve_coordinate.  ei = 1-based index of the entry whose recorded outputs are read.
Resolve(q) ==
  LET w == q.w
      n == Len(hist[w])
  IN IF q.at = "frontier"
     THEN IF q.frame \in {"CB", "QV"}
          THEN IF n = 0
               THEN [err |-> "", rtick |-> 0, cgt |-> -1, root |-> init[w].root, commit |-> init[w].commit, ei |-> 0]
               ELSE [err |-> "", rtick |-> n, cgt |-> hist[w][n].cgt, root |-> hist[w][n].root,
                     commit |-> hist[w][n].commit, ei |-> n]
          ELSE IF n = 0
               THEN RErr("ObservationUnavailable")
               ELSE [err |-> "", rtick |-> n - 1, cgt |-> hist[w][n].cgt, root |-> hist[w][n].root,
                     commit |-> hist[w][n].commit, ei |-> n]
     ELSE IF q.t < 0 \/ q.t >= n
          THEN RErr("InvalidTick")
          ELSE [err |-> "", rtick |-> q.t, cgt |-> hist[w][q.t + 1].cgt, root |-> hist[w][q.t + 1].root,
                commit |-> hist[w][q.t + 1].commit, ei |-> q.t + 1]

NoWit == [k |-> "", t |-> -1, c |-> "", r |-> ""]
\* witness_refs / witness_commit_tick
Wit(q, r) ==
  IF r.cgt = -1
  THEN [k |-> "empty", t |-> -1, c |-> r.commit, r |-> r.root]
  ELSE [k |-> "commit",
        t |-> IF q.frame \in {"CB", "QV"} /\ q.at = "frontier" THEN r.rtick - 1 ELSE r.rtick,
        c |-> r.commit, r |-> ""]

NoPost == [k |-> "", pft |-> -1, pfc |-> "", ptt |-> -1, ptc |-> "", ov |-> 0]
\* basis_posture + Strand::live_basis_report: a function of the CURRENT parent and child histories
Posture(w, frontier) ==
  IF strand[w].parent = "" THEN [NoPost EXCEPT !.k = "Worldline"]
  ELSE IF ~frontier THEN [NoPost EXCEPT !.k = "StrandHistorical"]
  ELSE LET p  == strand[w].parent
           a  == strand[w].anchor
           s  == a + 1                                  \* suffix start = number of shared entries
           pl == Len(hist[p])
           cl == Len(hist[w])
       IN IF pl = s THEN [NoPost EXCEPT !.k = "StrandAtAnchor"]
          ELSE LET own == UNION {hist[w][i].reads \cup hist[w][i].writes : i \in (s + 1)..cl}
                   mov == UNION {hist[p][i].writes : i \in (s + 1)..pl}
                   ov  == own \cap mov
               IN [k   |-> IF ov = {} THEN "StrandParentAdvancedDisjoint" ELSE "StrandRevalidationRequired",
                   pft |-> a, pfc |-> hist[p][a + 1].commit,
                   ptt |-> pl - 1, ptc |-> hist[p][pl].commit,
                   ov  |-> Cardinality(ov)]

ObsErr(e) == [ok |-> FALSE, err |-> e, rtick |-> -1, cgt |-> -1, oag |-> -1, root |-> "", commit |-> "",
              wit |-> NoWit, post |-> NoPost, truth |-> <<>>, residual |-> "", planout |-> "", plen |-> -1]

Filtered(outs, q) == SelectSeq(outs, LAMBDA o : q.fall \/ o.ch \in ToSet(q.chs))

\* budget_posture: one witness ref is always emitted; maxw = -1 stands for u64::MAX
OverBudget(q, plen) == q.bounded /\ (plen > q.maxb \/ (q.maxw # -1 /\ 1 > q.maxw))

Reading(q, plen) ==
  IF q.w \notin known THEN ObsErr("InvalidWorldline")
  ELSE IF ~ValidPair(q.frame, q.proj) THEN ObsErr("UnsupportedFrameProjection")
  ELSE IF ContractErr(q) # "" THEN ObsErr(ContractErr(q))
  ELSE LET r == Resolve(q) IN
       IF r.err # "" THEN ObsErr(r.err)
       ELSE IF q.proj = "query" /\ q.vars \in {"fail", "badvars"} THEN ObsErr("ContractQueryObserverFailed")
       ELSE IF OverBudget(q, plen) THEN ObsErr("BudgetExceeded")
       ELSE [ok |-> TRUE, err |-> "", rtick |-> r.rtick, cgt |-> r.cgt, oag |-> OAG,
             root |-> r.root, commit |-> r.commit,
             wit |-> Wit(q, r),
             post |-> Posture(q.w, q.at = "frontier"),
             truth |-> IF q.proj = "truth" THEN Filtered(hist[q.w][r.ei].outs, q) ELSE <<>>,
             residual |-> IF q.proj = "query" /\ q.vars = "residual" THEN "Residual" ELSE "Complete",
             planout |-> IF q.proj = "query" THEN "authored:installed" ELSE q.plan,
             plen |-> IF q.bounded THEN plen ELSE -1]

\* the part of a reading that is bound to the coordinate (everything but the read time, the
\* live parent-basis posture and the artifact hash)
CoordBound(rd) == [ok |-> rd.ok, err |-> rd.err, rtick |-> rd.rtick, cgt |-> rd.cgt, root |-> rd.root,
                   commit |-> rd.commit, wit |-> rd.wit, truth |-> rd.truth, residual |-> rd.residual,
                   planout |-> rd.planout, plen |-> rd.plen]

Observe(q, plen) == UNCHANGED rt

--------------------------------------------------------------------------------
(* ObservationService::observe_optic                                        *)

NoBasis == [k |-> "", cpt |-> -1, cpc |-> "", tail |-> <<>>]
Obstr(kind, reason) == [ok |-> FALSE, kind |-> kind, reason |-> reason, rd |-> ObsErr(""), basis |-> NoBasis]

\* validate_optic_budget
OpticBudgetBad(o) ==
  \/ o.maxb = -1 \/ o.maxb = 0
  \/ (o.shape \in {"head", "snapmeta"} /\ o.maxb < OpticMetadataMinBytes)
  \/ (o.shape = "range" /\ o.rlen > o.maxb)

\* optic_observation_error
MapObsError(e) ==
  CASE e \in {"InvalidWorldline", "InvalidTick", "ObservationUnavailable"} -> Obstr("MissingWitness", "EvidenceUnavailable")
    [] e = "UnsupportedFrameProjection" -> Obstr("UnsupportedAperture", "")
    [] e \in {"UnsupportedQuery", "UnsupportedObserverPlan", "UnsupportedObserverInstance",
              "ContractQueryObserverFailed"} -> Obstr("UnsupportedProjectionLaw", "")
    [] e = "UnsupportedRights" -> Obstr("CapabilityDenied", "")
    [] e = "BudgetExceeded" -> Obstr("BudgetExceeded", "BudgetLimited")
    [] OTHER -> Obstr("MissingWitness", "EvidenceUnavailable")

\* the ObservationRequest an optic request lowers to (optic_observation_request)
Lowered(o) ==
  [w |-> o.w, at |-> IF o.at = "frontier" THEN "frontier" ELSE "tick", t |-> IF o.at = "frontier" THEN 0 ELSE o.t,
   frame |-> "CB", proj |-> IF o.shape = "head" THEN "head" ELSE "snapshot",
   chs |-> <<>>, fall |-> TRUE, qid |-> 0, vars |-> "",
   plan |-> IF o.shape = "head" THEN "CommitBoundaryHead" ELSE "CommitBoundarySnapshot",
   inst |-> FALSE, rights |-> "public", bounded |-> TRUE, maxb |-> o.maxb, maxw |-> o.maxt]

\* checkpoint_plus_tail_witness_basis / artifact_witness_basis on a successful reading rd
WitnessBasis(o, rd) ==
  LET w == o.w
      m == rd.rtick
      single == [NoBasis EXCEPT !.k = IF rd.wit.k = "commit" THEN "commit" ELSE "set"]
      cs == {c \in ckpt[w] : c < m}
  IN IF rd.wit.k # "commit" \/ m = 0 \/ cs = {} THEN single
     ELSE LET c == MaxOf(cs) IN
          IF c = 0 THEN single
          ELSE IF o.maxt # -1 /\ m - c > o.maxt THEN [NoBasis EXCEPT !.k = "obstructed"]
          ELSE [k |-> "cptail", cpt |-> c - 1, cpc |-> hist[w][c].commit,
                tail |-> [i \in 1..(m - c) |-> [t |-> c + i - 1, c |-> hist[w][c + i].commit]]]

\* `ProvRefMismatch`: the optic names a full provenance coordinate (worldline, tick, commit id)
\* and the worldline's recorded commit at that tick is a different one, i.e. the named history
\* is unavailable.  The property demands a typed obstruction (any kind), never a reading.
OpticReading(o, plen) ==
  IF OpticBudgetBad(o) THEN Obstr("BudgetExceeded", "BudgetLimited")
  ELSE IF o.focus = "att"
       THEN IF o.shape = "attb" /\ o.descent = "boundary" THEN Obstr("AttachmentDescentRequired", "UnsupportedBasis")
            ELSE IF o.shape = "attb" /\ (o.maxa = -1 \/ o.maxa = 0) THEN Obstr("BudgetExceeded", "BudgetLimited")
            ELSE IF o.shape = "attb" THEN Obstr("AttachmentDescentDenied", "RightsLimited")
            ELSE Obstr("UnsupportedAperture", "UnsupportedBasis")
  ELSE IF o.focus # "wl" \/ o.ck # "wl" THEN Obstr("UnsupportedProjectionLaw", "")
  ELSE IF o.fw # o.w THEN Obstr("ConflictingFrontier", "")
  ELSE IF o.at = "prov" /\ o.pw # o.w THEN Obstr("ConflictingFrontier", "")
  ELSE IF o.shape = "query" THEN Obstr("UnsupportedProjectionLaw", "")
  ELSE IF o.shape \notin {"head", "snapmeta"} THEN Obstr("UnsupportedAperture", "")
  ELSE IF /\ o.at = "prov" /\ o.w \in known /\ o.t >= 0 /\ o.t < Len(hist[o.w])
          /\ hist[o.w][o.t + 1].commit # o.pc
       THEN Obstr("ProvRefMismatch", "")
  ELSE LET rd == Reading(Lowered(o), plen) IN
       IF ~rd.ok THEN MapObsError(rd.err)
       ELSE LET b == WitnessBasis(o, rd) IN
            IF b.k = "obstructed" THEN Obstr("LiveTailRequiresReduction", "BudgetLimited")
            ELSE [ok |-> TRUE, kind |-> "", reason |-> "", rd |-> rd, basis |-> b]

ObserveOptic(o, plen) == UNCHANGED rt
================================================================================
