SPECIFICATION MCSpec
CONSTANTS
  Reqs = {"r1", "r2", "r3"}
  None = None
  RecordVs = {"ok", "tampered", "zero_bytes", "zero_attempts", "two_attempts", "over_limit"}
  ClaimVs = {"ok", "ok2", "wrong_adapter", "auth_other_scope", "auth_other_request", "stale_basis", "ordinal1", "zero_lease"}
  SettleVs = {"s1", "s2", "rej", "fail", "unk", "foreign_grant", "cand_other_request", "cand_wrong_attempt", "cand_wrong_adapter", "cand_wrong_basis", "wrong_schema", "zero_schema_ev", "zero_ext_ev", "oversized", "bad_digest"}
  RetryVs = {"s1", "s2", "rej", "cand_wrong_attempt", "wrong_schema", "oversized", "bad_digest"}
  Fates = {"ok", "fault_frame_pre", "fault_frame_post", "fault_commit_pre", "fault_commit_post", "crash_frame", "crash_commit_keep", "crash_commit_lose", "crash_ack"}
  KeepHist = TRUE
  MaxOps = 7
  MaxNoops = 2
  MaxFaults = 2
  MaxRecovers = 2
  Export = FALSE
INVARIANTS
  Inv_LifecyclePrefix Inv_LiveShape Inv_OneGrant Inv_SettlementExact Inv_DurableBeforeReturn
  Inv_RecoveryNeverObstructed Inv_RecoveredEqLive Inv_PoisonedLagsByOne Inv_IncrementalRoot
  Inv_IssuedSurvive Inv_RetryFromRetained Inv_NoStepRepeated Inv_LsnContiguous Inv_TailShape
VIEW View
CHECK_DEADLOCK FALSE
