------------------------------ MODULE MC_C03 ------------------------------
(***************************************************************************)
(* C03 model: K candidates, each drawn from the full footprint class       *)
(* universe (per class none/read/write/read+write, ports none/in/out/both, *)
(* instance w0/w1), reserved one at a time by BOTH scheduler               *)
(* implementations in lock-step.  Every K-tuple is an initial state.       *)
(***************************************************************************)
EXTENDS Scheduler, Json, TLC

CONSTANTS K,                 \* number of candidates
          NodeModes, EdgeModes, AttModes, PortModes,   \* subsets of 0..3
          WarpChoices,       \* subset of {0, 1}
          MaskChoices,       \* subset of {0,1,2}: 0 = empty mask, 1 = {b0}, 2 = {b1}
          Export

VARIABLES cls,      \* sequence of K class records (the input; fixed once picked)
          i,        \* next candidate to reserve (1-based)
          marks, frontier,          \* Radix / Legacy scheduler state
          accR, accL,               \* decisions so far
          blk                       \* attributed blockers per candidate (Radix run)
vars == <<cls, i, marks, frontier, accR, accL, blk>>

Classes == [n : NodeModes, e : EdgeModes, a : AttModes, p : PortModes, w : WarpChoices, m : MaskChoices]

R(mode) == mode \in {1, 3}
W(mode) == mode \in {2, 3}
FpOf(c) ==
  LET w == c.w IN
  FP(IF R(c.n) THEN {<<w, "n">>} ELSE {}, IF W(c.n) THEN {<<w, "n">>} ELSE {},
     IF R(c.e) THEN {<<w, "e">>} ELSE {}, IF W(c.e) THEN {<<w, "e">>} ELSE {},
     IF R(c.a) THEN {<<w, "a">>} ELSE {}, IF W(c.a) THEN {<<w, "a">>} ELSE {},
     IF R(c.p) THEN {<<w, "p">>} ELSE {}, IF W(c.p) THEN {<<w, "p">>} ELSE {},   \* port: 1=in, 2=out, 3=both
     CASE c.m = 0 -> {} [] c.m = 1 -> {0} [] c.m = 2 -> {1})

Cands == [k \in 1..Len(cls) |-> FpOf(cls[k])]

\* candidates are picked one at a time (so the enumeration is spread over TLC's workers)
Init == /\ cls = <<>>
        /\ i = 1 /\ marks = EmptyMarks /\ frontier = <<>>
        /\ accR = <<>> /\ accL = <<>> /\ blk = <<>>

Pick == /\ Len(cls) < K
        /\ \E c \in Classes : cls' = Append(cls, c)
        /\ UNCHANGED <<i, marks, frontier, accR, accL, blk>>

Reserve ==
  /\ Len(cls) = K
  /\ i <= K
  /\ LET f == Cands[i]
         r == RadixStep(marks, f)
         l == LegacyStep(frontier, f)
     IN /\ marks' = r.marks /\ frontier' = l.frontier
        /\ accR' = Append(accR, r.ok) /\ accL' = Append(accL, l.ok)
        /\ blk' = Append(blk, IF r.ok THEN {} ELSE AttributedBlockers(Cands, accR, i))
  /\ i' = i + 1
  /\ UNCHANGED cls
Next == Pick \/ Reserve
Spec == Init /\ [][Next]_vars

Done == i = K + 1
Oracle == GreedyAdmit(Cands)

\* ---- properties ---------------------------------------------------------
\* Radix decisions are the canonical greedy independent set (every prefix)
Inv_RadixIsGreedy == \A k \in 1..Len(accR) : accR[k] = Oracle[k]
\* a rejected candidate reserves nothing: marks are exactly those of the accepted ones
Inv_RejectedMarksNothing == marks = MarksOf({Cands[k] : k \in {x \in 1..Len(accR) : accR[x]}})
\* blockers named in the receipt are exactly the earlier accepted candidates in conflict, and non-empty
Inv_ExactBlockers == Done => \A k \in 1..Len(blk) :
                        IF accR[k] THEN blk[k] = {} ELSE blk[k] = Blockers(Cands, Oracle, k) /\ blk[k] # {}
\* both implementations decide identically whenever partition masks are sound
Inv_LegacyAgreesWhenSound == MasksSound(Cands) => accL = accR
\* the three transcribed conflict predicates are one relation
Inv_PredicatesAgree == (i = 1 /\ Len(cls) = K) => \A x, y \in 1..K : /\ Conflicts(Cands[x], Cands[y]) = FootprintsConflict(Cands[x], Cands[y])
                                          /\ Conflicts(Cands[x], Cands[y]) = Conflicts(Cands[y], Cands[x])
                                          /\ Conflicts(Cands[x], Cands[y]) = HasConflict(MarkAll(EmptyMarks, Cands[y]), Cands[x])

CaseJson == [c |-> [k \in 1..K |-> <<cls[k].n, cls[k].e, cls[k].a, cls[k].p, cls[k].w, cls[k].m>>],
             accR |-> accR, accL |-> accL,
             blk |-> [k \in 1..K |-> blk[k]],
             sound |-> MasksSound(Cands)]
Inv_Export == (Export /\ Done) => PrintT(<<"CASE", ToJson(CaseJson)>>)
=============================================================================
