\* C20 thorough, export: every memory-tier behaviour of 4 calls, all ops incl. get/has/load as own steps (2 blobs, 2 coordinates, retention index)
SPECIFICATION Spec
CONSTANTS
  Blobs = {"a", "b"}
  Coords = {"k0", "k1"}
  Tiers = {"mem"}
  Faults = {}
  MaxFaults = 0
  Size <- MC_Size
  MaxBytes = 2
  MemFastPath = FALSE
  ReadOps = TRUE
  WithIndex = TRUE
  Export = TRUE
  MaxLen = 4
INVARIANTS TypeOK Inv_GetIntact Inv_MemWellFormed Inv_CorruptionDetected Inv_HasMeansGet Inv_LoadIntact Inv_Export
PROPERTIES P_MismatchRefused P_PutIdempotent P_PinKeepsContent P_ReadsReadOnly P_Reopen P_IndexStable
CONSTRAINT DepthBound
CHECK_DEADLOCK FALSE
