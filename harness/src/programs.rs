//! Table-driven rewrite rules. `ExecuteFn` / `MatchFn` / `FootprintFn` are plain `fn`
//! pointers, so rule k (1-based, k <= 16) interprets `PROGRAMS[k-1]` from a process-global
//! table that each case installs before it runs. The program language and its honest
//! footprints are the ones of spec/Tick.tla (Prog / DeclaredFP / Effects).

use std::sync::Mutex;

use serde::Deserialize;
use warp_core::{
    AttachmentKey, AttachmentValue, ConflictPolicy, EdgeKey, EdgeRecord, Footprint, GraphView, NodeId,
    NodeKey, NodeRecord, PatternGraph, RewriteRule, TickDelta, WarpOp,
};

use crate::ids;

#[derive(Deserialize, Clone, Debug, Default)]
pub struct Program {
    pub kind: String,
    #[serde(default)]
    pub a: String,
    #[serde(default)]
    pub b: String,
    #[serde(default)]
    pub e: String,
    #[serde(default)]
    pub ty: String,
    #[serde(default)]
    pub ty2: String,
    #[serde(default)]
    pub p: String,
    /// fault injection (C09/C14): "", "panic", "undeclared_read", "undeclared_write", ...
    #[serde(default)]
    pub fault: String,
    /// footprint class dropped from the declaration: "", "n_read", "n_write", "e_read", "e_write", "a_read", "a_write"
    #[serde(default)]
    pub omit: String,
}

pub static PROGRAMS: Mutex<Vec<Program>> = Mutex::new(Vec::new());
pub const MAX_RULES: usize = 36;

pub fn install(progs: &[Program]) {
    let mut g = PROGRAMS.lock().unwrap_or_else(|p| p.into_inner());
    *g = progs.to_vec();
}

fn prog(k: usize) -> Program {
    let g = PROGRAMS.lock().unwrap_or_else(|p| p.into_inner());
    g.get(k).cloned().unwrap_or_default()
}

fn res(x: &str, scope: &NodeId) -> NodeId {
    if x == "S" { *scope } else { ids::node(x) }
}

fn is_desc(v: Option<&AttachmentValue>) -> bool {
    matches!(v, Some(AttachmentValue::Descend(_)))
}

pub fn declared_footprint(p: &Program, warp: warp_core::WarpId, scope: &NodeId) -> Footprint {
    let a = res(&p.a, scope);
    let b = res(&p.b, scope);
    let e = EdgeKey { warp_id: warp, local_id: ids::edge(&p.e) };
    let nk = |n: NodeId| NodeKey { warp_id: warp, local_id: n };
    let natt = |n: NodeId| AttachmentKey::node_alpha(nk(n));
    let eatt = AttachmentKey::edge_beta(e);
    let mut fp = Footprint { factor_mask: 1, ..Footprint::default() };
    match p.kind.as_str() {
        "SetAtom" => {
            fp.n_read.insert(nk(a));
            fp.a_read.insert(natt(a));
            fp.a_write.insert(natt(a));
        }
        "DoubleSet" => {
            fp.n_read.insert(nk(a));
            fp.a_read.insert(natt(a));
            fp.a_write.insert(natt(a));
        }
        "CopyAtt" => {
            fp.n_read.insert(nk(b));
            fp.a_read.insert(natt(a));
            fp.a_read.insert(natt(b));
            fp.a_write.insert(natt(b));
        }
        "AddEdge" => {
            fp.n_read.insert(nk(a));
            fp.n_read.insert(nk(b));
            fp.n_write.insert(nk(a));
            fp.e_write.insert(e);
        }
        "DelEdgeFrom" => {
            fp.n_read.insert(nk(a));
            fp.n_write.insert(nk(a));
            fp.e_write.insert(e);
            fp.a_read.insert(eatt);
            fp.a_write.insert(eatt);
        }
        "SetEdgeAtom" => {
            fp.e_read.insert(e);
            fp.a_read.insert(eatt);
            fp.a_write.insert(eatt);
        }
        "UpsertNode" => {
            fp.n_write.insert(nk(a));
        }
        "RetypeByAtt" => {
            fp.a_read.insert(natt(a));
            fp.n_write.insert(nk(b));
        }
        "DelNodeIso" => {
            fp.n_read.insert(nk(a));
            fp.n_write.insert(nk(a));
            fp.a_read.insert(natt(a));
            fp.a_write.insert(natt(a));
        }
        _ => {}
    }
    match p.omit.as_str() {
        "n_read" => fp.n_read = Default::default(),
        "n_write" => fp.n_write = Default::default(),
        "e_read" => fp.e_read = Default::default(),
        "e_write" => fp.e_write = Default::default(),
        "a_read" => fp.a_read = Default::default(),
        "a_write" => fp.a_write = Default::default(),
        _ => {}
    }
    fp
}

fn interp_exec(k: usize, view: GraphView<'_>, scope: &NodeId, delta: &mut TickDelta) {
    let p = prog(k);
    let warp = view.warp_id();
    let a = res(&p.a, scope);
    let b = res(&p.b, scope);
    let e = ids::edge(&p.e);
    let nk = |n: NodeId| NodeKey { warp_id: warp, local_id: n };
    // 1. every read the program may perform, unconditionally and in the order of
    //    spec/ParallelExec.tla `Reads` (so that enforcement outcomes are state-independent)
    let mut own: Vec<WarpOp> = Vec::new();
    match p.kind.as_str() {
        "SetAtom" => {
            let has = view.node(&a).is_some();
            let att = view.node_attachment(&a);
            if has && !is_desc(att) {
                own.push(WarpOp::SetAttachment {
                    key: AttachmentKey::node_alpha(nk(a)),
                    value: Some(AttachmentValue::Atom(ids::atom(&p.p))),
                });
            }
        }
        "DoubleSet" => {
            // writes its own declared slot twice with different values: a merge conflict by construction
            let has = view.node(&a).is_some();
            let att = view.node_attachment(&a);
            if has && !is_desc(att) {
                for p2 in ["p0", "p1"] {
                    own.push(WarpOp::SetAttachment {
                        key: AttachmentKey::node_alpha(nk(a)),
                        value: Some(AttachmentValue::Atom(ids::atom(p2))),
                    });
                }
            }
        }
        "CopyAtt" => {
            let has_b = view.node(&b).is_some();
            let v = view.node_attachment(&a).cloned();
            let vb = view.node_attachment(&b);
            if has_b && !is_desc(v.as_ref()) && !is_desc(vb) {
                own.push(WarpOp::SetAttachment { key: AttachmentKey::node_alpha(nk(b)), value: v });
            }
        }
        "AddEdge" => {
            let has_a = view.node(&a).is_some();
            let has_b = view.node(&b).is_some();
            if has_a && has_b {
                own.push(WarpOp::UpsertEdge {
                    warp_id: warp,
                    record: EdgeRecord { id: e, from: a, to: b, ty: ids::ty(&p.ty) },
                });
            }
        }
        "DelEdgeFrom" => {
            let present = view.edges_from(&a).any(|r| r.id == e);
            let att = view.edge_attachment(&e);
            if present && !is_desc(att) {
                own.push(WarpOp::DeleteEdge { warp_id: warp, from: a, edge_id: e });
            }
        }
        "SetEdgeAtom" => {
            let has = view.has_edge(&e);
            let att = view.edge_attachment(&e);
            if has && !is_desc(att) {
                own.push(WarpOp::SetAttachment {
                    key: AttachmentKey::edge_beta(EdgeKey { warp_id: warp, local_id: e }),
                    value: Some(AttachmentValue::Atom(ids::atom(&p.p))),
                });
            }
        }
        "UpsertNode" => {
            own.push(WarpOp::UpsertNode { node: nk(a), record: NodeRecord { ty: ids::ty(&p.ty) } });
        }
        "RetypeByAtt" => {
            let hit = view.node_attachment(&a) == Some(&AttachmentValue::Atom(ids::atom(&p.p)));
            let ty = if hit { &p.ty } else { &p.ty2 };
            own.push(WarpOp::UpsertNode { node: nk(b), record: NodeRecord { ty: ids::ty(ty) } });
        }
        "DelNodeIso" => {
            let has = view.node(&a).is_some();
            let isolated = view.edges_from(&a).next().is_none();
            let att = view.node_attachment(&a);
            if has && isolated && !is_desc(att) {
                own.push(WarpOp::DeleteNode { node: nk(a) });
            }
        }
        _ => {}
    }
    // 2. injected undeclared reads (ids n3 / e2 are outside every declared footprint)
    let x = ids::node("n3");
    let ex = ids::edge("e2");
    match p.fault.as_str() {
        "read_node" => { let _ = view.node(&x); }
        "read_adj" => { let _ = view.edges_from(&x).count(); }
        "read_natt" => { let _ = view.node_attachment(&x); }
        "read_eatt" => { let _ = view.edge_attachment(&ex); }
        "read_edge" => { let _ = view.has_edge(&ex); }
        "read_natt_n2" => { let _ = view.node_attachment(&ids::node("n2")); }
        _ => {}
    }
    // 3. the program's own ops
    for op in own {
        delta.push(op);
    }
    // 4. injected undeclared writes
    let other = if warp == ids::warp("w0") { ids::warp("w1") } else { ids::warp("w0") };
    match p.fault.as_str() {
        "write_node" => delta.push(WarpOp::UpsertNode { node: nk(x), record: NodeRecord { ty: ids::ty("tA") } }),
        "write_edge" => delta.push(WarpOp::UpsertEdge { warp_id: warp, record: EdgeRecord { id: ex, from: *scope, to: *scope, ty: ids::ty("tA") } }),
        "write_edge_from" => delta.push(WarpOp::UpsertEdge { warp_id: warp, record: EdgeRecord { id: ex, from: x, to: *scope, ty: ids::ty("tA") } }),
        "write_att" => delta.push(WarpOp::SetAttachment { key: AttachmentKey::node_alpha(nk(x)), value: Some(AttachmentValue::Atom(ids::atom("p0"))) }),
        "del_node" => delta.push(WarpOp::DeleteNode { node: nk(x) }),
        "del_edge" => delta.push(WarpOp::DeleteEdge { warp_id: warp, from: x, edge_id: ex }),
        "cross_warp" => delta.push(WarpOp::UpsertNode { node: NodeKey { warp_id: other, local_id: *scope }, record: NodeRecord { ty: ids::ty("tA") } }),
        "instance_upsert" => delta.push(WarpOp::UpsertWarpInstance { instance: warp_core::WarpInstance { warp_id: warp, root_node: *scope, parent: None } }),
        "instance_delete" => delta.push(WarpOp::DeleteWarpInstance { warp_id: warp }),
        "open_portal" => delta.push(WarpOp::OpenPortal {
            key: AttachmentKey::node_alpha(nk(*scope)),
            child_warp: other,
            child_root: ids::node("n0"),
            init: warp_core::PortalInit::Empty { root_record: NodeRecord { ty: ids::ty("tA") } },
        }),
        "open_portal_existing" => delta.push(WarpOp::OpenPortal {
            key: AttachmentKey::node_alpha(nk(*scope)),
            child_warp: other,
            child_root: ids::node("n0"),
            init: warp_core::PortalInit::RequireExisting,
        }),
        _ => {}
    }
    // 5. a plain executor panic, after everything was emitted
    if p.fault == "panic" {
        std::panic::panic_any("verif: injected executor panic".to_string());
    }
}

fn interp_match(_k: usize, view: GraphView<'_>, scope: &NodeId) -> bool {
    view.node(scope).is_some()
}

fn interp_fp(k: usize, view: GraphView<'_>, scope: &NodeId) -> Footprint {
    declared_footprint(&prog(k), view.warp_id(), scope)
}

macro_rules! rule_fns {
    ($($k:literal => $e:ident, $m:ident, $f:ident;)*) => {
        $(
            fn $e(view: GraphView<'_>, scope: &NodeId, delta: &mut TickDelta) { interp_exec($k, view, scope, delta) }
            fn $m(view: GraphView<'_>, scope: &NodeId) -> bool { interp_match($k, view, scope) }
            fn $f(view: GraphView<'_>, scope: &NodeId) -> Footprint { interp_fp($k, view, scope) }
        )*
        fn fns(k: usize) -> (warp_core::ExecuteFn, warp_core::MatchFn, for<'a> fn(GraphView<'a>, &NodeId) -> Footprint) {
            match k {
                $($k => ($e, $m, $f),)*
                _ => unreachable!("rule index out of range"),
            }
        }
    };
}
rule_fns! {
    0 => e0, m0, f0; 1 => e1, m1, f1; 2 => e2, m2, f2; 3 => e3, m3, f3; 4 => e4, m4, f4; 5 => e5, m5, f5; 6 => e6, m6, f6; 7 => e7, m7, f7; 8 => e8, m8, f8; 9 => e9, m9, f9; 10 => e10, m10, f10; 11 => e11, m11, f11; 12 => e12, m12, f12; 13 => e13, m13, f13; 14 => e14, m14, f14; 15 => e15, m15, f15; 16 => e16, m16, f16; 17 => e17, m17, f17; 18 => e18, m18, f18; 19 => e19, m19, f19; 20 => e20, m20, f20; 21 => e21, m21, f21; 22 => e22, m22, f22; 23 => e23, m23, f23; 24 => e24, m24, f24; 25 => e25, m25, f25; 26 => e26, m26, f26; 27 => e27, m27, f27; 28 => e28, m28, f28; 29 => e29, m29, f29; 30 => e30, m30, f30; 31 => e31, m31, f31; 32 => e32, m32, f32; 33 => e33, m33, f33; 34 => e34, m34, f34; 35 => e35, m35, f35;
}

/// Name of rule `r` (1-based model index).
pub fn rule_name(r: usize) -> &'static str {
    static NAMES: Mutex<Vec<Option<&'static str>>> = Mutex::new(Vec::new());
    let mut g = NAMES.lock().unwrap_or_else(|p| p.into_inner());
    if g.len() <= r {
        g.resize(r + 1, None);
    }
    if let Some(n) = g[r] {
        return n;
    }
    let s: &'static str = Box::leak(format!("verif{}/rule/{}", ids::salt(), r).into_boxed_str());
    g[r] = Some(s);
    s
}

pub fn rule_id(r: usize) -> [u8; 32] {
    *blake3::hash(format!("rule:{}", rule_name(r)).as_bytes()).as_bytes()
}

/// The real `RewriteRule` for model rule index `r` (1-based).
pub fn rule(r: usize) -> RewriteRule {
    let (executor, matcher, compute_footprint) = fns(r - 1);
    RewriteRule {
        id: rule_id(r),
        name: rule_name(r),
        left: PatternGraph { nodes: vec![] },
        matcher,
        executor,
        compute_footprint,
        factor_mask: 1,
        conflict_policy: ConflictPolicy::Abort,
        join_fn: None,
    }
}
