//! Shared fixture for the C10/C11 harness legs: a real `TrustedRuntimeHost` with a filesystem
//! runtime WAL, an installed contract package whose rule / matcher / footprint / query observer
//! bump global counters, generated submit/stage/tick workloads, segment parsing and directory
//! materialisation. Setup imitates crates/warp-core/tests/trusted_runtime_host_loop_tests.rs.

use std::fs;
use std::path::{Path, PathBuf};
use std::sync::atomic::{AtomicU64, Ordering};

use echo_registry_api::{
    ArgDef, ContractArtifactVerificationPolicy, ObjectDef, OpDef, OpKind, RegistryInfo, RegistryProvider,
};
use warp_core::causal_wal::{canonical_segment_path, WalSegmentId};
use warp_core::{
    make_head_id, make_intent_kind, make_node_id, make_type_id, AuthoredObserverPlan, ContractMutationHandler,
    ContractPackageIdentity, ContractQueryObserver, ContractQueryObserverResult, EngineBuilder, GraphStore, GraphView,
    Hash, InboxPolicy, IngressEnvelope, IngressTarget, IntentOutcome, NodeId, NodeRecord, ObserverPlanId,
    PatternGraph, PlaybackMode, SchedulerKind, TickDelta, TrustedRuntimeHost, TrustedRuntimeWalConfig, WarpOp,
    WorldlineId, WorldlineRuntime, WorldlineState, WriterHead, WriterHeadKey,
};

pub const SCRATCH: &str = "/verif/work/agent_wal/scratch";

pub static CB_EXEC: AtomicU64 = AtomicU64::new(0);
pub static CB_MATCH: AtomicU64 = AtomicU64::new(0);
pub static CB_FOOT: AtomicU64 = AtomicU64::new(0);
pub static CB_OBS: AtomicU64 = AtomicU64::new(0);

pub fn callbacks() -> [u64; 4] {
    [
        CB_EXEC.load(Ordering::SeqCst),
        CB_MATCH.load(Ordering::SeqCst),
        CB_FOOT.load(Ordering::SeqCst),
        CB_OBS.load(Ordering::SeqCst),
    ]
}

const SCHEMA_SHA256_HEX: &str = "0123456789abcdef0123456789abcdef0123456789abcdef0123456789abcdef";
const MUTATION_OP_ID: u32 = 6001;
const QUERY_OP_ID: u32 = 6002;
const RESULT_TYPE: &str = "verif/wal/result";
const MUTATION_RULE_NAME: &str =
    "cmd/contract/0123456789abcdef0123456789abcdef0123456789abcdef0123456789abcdef/6001/increment";
const MUTATION_RULE_ID_LABEL: &str =
    "rule:cmd/contract/0123456789abcdef0123456789abcdef0123456789abcdef0123456789abcdef/6001/increment";

static INCREMENT_ARGS: &[ArgDef] = &[ArgDef { name: "input", ty: "IncrementInput", required: true, list: false }];
static OPS: &[OpDef] = &[
    OpDef {
        kind: OpKind::Mutation,
        name: "increment",
        op_id: MUTATION_OP_ID,
        args: INCREMENT_ARGS,
        result_ty: "CounterValue",
        directives_json: "{}",
        footprint_certificate: None,
    },
    OpDef {
        kind: OpKind::Query,
        name: "counterWindow",
        op_id: QUERY_OP_ID,
        args: INCREMENT_ARGS,
        result_ty: "CounterWindow",
        directives_json: "{}",
        footprint_certificate: None,
    },
];

struct StaticRegistry;
impl RegistryProvider for StaticRegistry {
    fn info(&self) -> RegistryInfo {
        RegistryInfo {
            echo_abi_version: 1,
            codec_id: "cbor-canon-v1",
            registry_version: 1,
            schema_sha256_hex: SCHEMA_SHA256_HEX,
            wesley_generator_version: "echo-wesley-gen/0.1.0",
            helper_api_version: 1,
        }
    }
    fn op_by_id(&self, op_id: u32) -> Option<&'static OpDef> {
        OPS.iter().find(|op| op.op_id == op_id)
    }
    fn all_ops(&self) -> &'static [OpDef] {
        OPS
    }
    fn all_enums(&self) -> &'static [echo_registry_api::EnumDef] {
        &[]
    }
    fn all_objects(&self) -> &'static [ObjectDef] {
        &[]
    }
}

pub fn empty_engine() -> warp_core::Engine {
    let mut store = GraphStore::default();
    let root = make_node_id("root");
    store.insert_node(root, NodeRecord { ty: make_type_id("world") });
    EngineBuilder::new(store, root).scheduler(SchedulerKind::Radix).workers(1).build()
}

fn result_node_id(scope: &NodeId) -> NodeId {
    let mut hasher = blake3::Hasher::new();
    hasher.update(b"verif.wal.result-node");
    hasher.update(scope.as_bytes());
    NodeId(hasher.finalize().into())
}

fn vars_of<'a>(view: GraphView<'a>, scope: &NodeId) -> Option<&'a [u8]> {
    warp_core::eint_vars_for_op(view, scope, MUTATION_OP_ID).filter(|v| v.starts_with(b"amount="))
}

fn contract_execute(view: GraphView<'_>, scope: &NodeId, delta: &mut TickDelta) {
    CB_EXEC.fetch_add(1, Ordering::SeqCst);
    let Some(vars) = vars_of(view, scope) else { return };
    let warp_id = view.warp_id();
    let result = result_node_id(scope);
    delta.push(WarpOp::UpsertNode {
        node: warp_core::NodeKey { warp_id, local_id: result },
        record: NodeRecord { ty: make_type_id(RESULT_TYPE) },
    });
    let mut bytes = b"value:".to_vec();
    bytes.extend_from_slice(vars);
    delta.push(WarpOp::SetAttachment {
        key: warp_core::AttachmentKey::node_alpha(warp_core::NodeKey { warp_id, local_id: result }),
        value: Some(warp_core::AttachmentValue::Atom(warp_core::AtomPayload::new(
            make_type_id(RESULT_TYPE),
            bytes::Bytes::from(bytes),
        ))),
    });
}

fn contract_matches(view: GraphView<'_>, scope: &NodeId) -> bool {
    CB_MATCH.fetch_add(1, Ordering::SeqCst);
    vars_of(view, scope).is_some()
}

fn contract_footprint(view: GraphView<'_>, scope: &NodeId) -> warp_core::Footprint {
    CB_FOOT.fetch_add(1, Ordering::SeqCst);
    let mut footprint = warp_core::runtime_ingress_eint_read_footprint(view, scope);
    let warp_id = view.warp_id();
    let result = result_node_id(scope);
    footprint.n_write.insert_with_warp(warp_id, result);
    footprint
        .a_write
        .insert(warp_core::AttachmentKey::node_alpha(warp_core::NodeKey { warp_id, local_id: result }));
    footprint
}

fn contract_rule() -> warp_core::RewriteRule {
    warp_core::RewriteRule {
        id: make_type_id(MUTATION_RULE_ID_LABEL).0,
        name: MUTATION_RULE_NAME,
        left: PatternGraph { nodes: vec![] },
        matcher: contract_matches,
        executor: contract_execute,
        compute_footprint: contract_footprint,
        factor_mask: 0,
        conflict_policy: warp_core::ConflictPolicy::Abort,
        join_fn: None,
    }
}

fn observer_plan() -> AuthoredObserverPlan {
    AuthoredObserverPlan {
        plan_id: ObserverPlanId::from_bytes([11; 32]),
        artifact_hash: [12; 32],
        schema_hash: [13; 32],
        state_schema_hash: [14; 32],
        update_law_hash: [15; 32],
        emission_law_hash: [16; 32],
    }
}

pub fn package() -> warp_core::InstalledContractPackage<'static> {
    static REGISTRY: StaticRegistry = StaticRegistry;
    warp_core::InstalledContractPackage {
        identity: ContractPackageIdentity {
            package_name: "verif-wal-counter",
            package_version: "0.1.0",
            artifact_hash_hex: "bbbbbbbbbbbbbbbbbbbbbbbbbbbbbbbbbbbbbbbbbbbbbbbbbbbbbbbbbbbbbbbb",
        },
        registry: &REGISTRY,
        verification_policy: ContractArtifactVerificationPolicy {
            echo_abi_version: 1,
            codec_id: "cbor-canon-v1",
            registry_version: 1,
            schema_sha256_hex: SCHEMA_SHA256_HEX,
            wesley_generator_version: "echo-wesley-gen/0.1.0",
            helper_api_version: 1,
            footprint_certificates: &[],
            require_mutation_footprint_certificates: false,
        },
        mutation_handlers: vec![ContractMutationHandler { op_id: MUTATION_OP_ID, rule: contract_rule() }],
        inverse_handlers: vec![],
        query_observers: vec![ContractQueryObserver::new(QUERY_OP_ID, observer_plan(), |_context| {
            CB_OBS.fetch_add(1, Ordering::SeqCst);
            Ok(ContractQueryObserverResult::complete(b"window".to_vec()))
        })],
    }
}

pub const NUM_WORLDLINES: usize = 2;

pub fn worldline(ix: usize) -> WorldlineId {
    WorldlineId::from_bytes([(ix as u8) + 1; 32])
}

pub fn fresh_runtime() -> WorldlineRuntime {
    let mut runtime = WorldlineRuntime::new();
    for ix in 0..NUM_WORLDLINES {
        let worldline_id = worldline(ix);
        runtime.register_worldline(worldline_id, WorldlineState::empty()).expect("worldline registers");
        runtime
            .register_writer_head(WriterHead::with_routing(
                WriterHeadKey { worldline_id, head_id: make_head_id(&format!("default-{ix}")) },
                PlaybackMode::Play,
                InboxPolicy::AcceptAll,
                None,
                true,
            ))
            .expect("writer head registers");
    }
    runtime
}

/// The envelope of generated submission `i` (salt makes a second, different log with equal LSNs).
pub fn envelope(i: usize, wl: usize, salt: &str) -> IngressEnvelope {
    let vars = format!("amount={salt}{i}");
    IngressEnvelope::local_intent(
        IngressTarget::DefaultWriter { worldline_id: worldline(wl) },
        make_intent_kind("echo.intent/eint-v1"),
        echo_wasm_abi::pack_intent_v1(MUTATION_OP_ID, vars.as_bytes()).expect("EINT packs"),
    )
}

pub fn new_host() -> TrustedRuntimeHost {
    TrustedRuntimeHost::new(fresh_runtime(), empty_engine()).expect("trusted host initialises")
}

/// Opens a fresh host on a WAL directory. `Err` carries the Debug text of the host error.
pub fn open_host(dir: &Path) -> Result<TrustedRuntimeHost, String> {
    let mut host = new_host();
    host.enable_runtime_wal(TrustedRuntimeWalConfig::filesystem(dir)).map_err(|e| format!("{e:?}"))?;
    Ok(host)
}

pub fn segment_file(dir: &Path) -> PathBuf {
    canonical_segment_path(dir, WalSegmentId::from_raw(1))
}
pub fn ledger_file(dir: &Path) -> PathBuf {
    dir.join("writer-epochs.ecwal")
}
pub fn read_segment(dir: &Path) -> Vec<u8> {
    fs::read(segment_file(dir)).unwrap_or_default()
}
pub fn read_ledger(dir: &Path) -> Option<Vec<u8>> {
    fs::read(ledger_file(dir)).ok()
}

/// Creates `dir` holding exactly: the segment bytes, the ledger bytes (if any), an empty lock
/// file, optionally a leftover ledger temp file.
pub fn materialise(dir: &Path, segment: &[u8], ledger: Option<&[u8]>, ledger_tmp: Option<&[u8]>) {
    let _ = fs::remove_dir_all(dir);
    fs::create_dir_all(dir.join("segments")).expect("scratch dir");
    fs::write(segment_file(dir), segment).expect("segment written");
    if let Some(l) = ledger {
        fs::write(ledger_file(dir), l).expect("ledger written");
    }
    if let Some(t) = ledger_tmp {
        fs::write(dir.join(".writer-epochs.ecwal.tmp"), t).expect("ledger tmp written");
    }
    fs::write(dir.join("writer-epoch.lock"), b"").expect("lock file");
}

/// One disk record located in segment bytes (independent parser of the on-disk framing
/// `magic(8) | kind(1) | len(8, LE) | payload | digest(32)`).
#[derive(Clone, Debug)]
pub struct DiskRec {
    pub start: usize,
    pub end: usize,
    pub kind: u8,
    pub tx: [u8; 32],
    /// frames: LSN; commits: last LSN
    pub lsn: u64,
    /// frames: transaction-local index; commits: record count
    pub idx: u64,
    /// commits: first LSN
    pub first: u64,
    pub epoch: [u8; 32],
}

pub const REC_HEADER: usize = 8 + 1 + 8;

pub fn parse_records(bytes: &[u8]) -> Vec<DiskRec> {
    let mut out = Vec::new();
    let mut off = 0usize;
    while off + REC_HEADER <= bytes.len() {
        if &bytes[off..off + 8] != b"ECWALR1!" {
            break;
        }
        let kind = bytes[off + 8];
        let len = u64::from_le_bytes(bytes[off + 9..off + 17].try_into().unwrap()) as usize;
        let p = off + REC_HEADER;
        let end = match p.checked_add(len).and_then(|x| x.checked_add(32)) {
            Some(e) if e <= bytes.len() => e,
            _ => break,
        };
        let payload = &bytes[p..p + len];
        let u64at = |o: usize| u64::from_le_bytes(payload[o..o + 8].try_into().unwrap());
        let h32 = |o: usize| -> [u8; 32] { payload[o..o + 32].try_into().unwrap() };
        let rec = if kind == 1 && len >= 86 {
            // frame: version(2) epoch(32) segment(8) lsn(8) tx(32) local_index(4) ...
            DiskRec {
                start: off,
                end,
                kind,
                epoch: h32(2),
                lsn: u64at(42),
                tx: h32(50),
                idx: u32::from_le_bytes(payload[82..86].try_into().unwrap()) as u64,
                first: 0,
            }
        } else if kind == 2 && len >= 89 {
            // commit: epoch(32) tx(32) kind(1) first(8) last(8) count(8) ...
            DiskRec { start: off, end, kind, epoch: h32(0), tx: h32(32), first: u64at(65), lsn: u64at(73), idx: u64at(81) }
        } else {
            DiskRec { start: off, end, kind, epoch: [0; 32], tx: [0; 32], lsn: 0, idx: 0, first: 0 }
        };
        out.push(rec);
        off = end;
    }
    out
}

/// Normalised, hashable text of an app-facing outcome. Staging is not WAL-recorded, so the
/// ticketed ingress id of a still-pending submission is masked.
pub fn outcome_text(o: &IntentOutcome) -> String {
    match o {
        IntentOutcome::Pending { submission_id, submission_generation, .. } => {
            format!("Pending({}, {:?})", hex::encode(submission_id), submission_generation)
        }
        other => format!("{other:?}"),
    }
}

pub fn outcome_class(o: &IntentOutcome) -> &'static str {
    match o {
        IntentOutcome::Unknown { .. } => "unknown",
        IntentOutcome::Pending { .. } => "pending",
        IntentOutcome::Applied { .. } => "applied",
        IntentOutcome::Rejected { .. } => "rejected",
        #[allow(unreachable_patterns)]
        _ => "other",
    }
}

pub fn h(bytes: &[u8]) -> String {
    hex::encode(&blake3::hash(bytes).as_bytes()[..12])
}

pub fn hash_hex(x: &Hash) -> String {
    hex::encode(x)
}
