SPECIFICATION Spec
CONSTANTS
  Warps = {"w0", "w1"}
  Nodes = {"n0", "n1"}
  Edges = {"e0"}
  Types = {"tA", "tB"}
  Atoms = {"p0"}
  RankW <- MC_RankW
  RankN <- MC_RankN
  RankE <- MC_RankE
  RootWarp = "w0"
  RootNode = "n0"
  ChildWarps = {"w1"}
  FreeWarps = {}
  EdgeTypes = {"tA"}
  NodeTypes = {"tA", "tB"}
  Export = TRUE
  None = None
INVARIANTS Inv_WellFormed Inv_Export
CHECK_DEADLOCK FALSE
