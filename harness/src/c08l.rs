//! C08, legacy-inbox leg: replay of the behaviours of spec/Inbox.tla (exported by MC_C08l) into a real
//! `Engine` through the legacy graph-backed inbox API (`ingest_intent`, `ingest_inbox_event`,
//! `dispatch_next_intent`, `sys/ack_pending`, `sys/dispatch_inbox`, `begin` / `commit` / `abort`).
//!
//! Every call of a behaviour is decided on the REAL outcome (independently of the model's prediction):
//!  * identity: the returned intent id is `H("intent:" || bytes)`; the event node id is that id;
//!  * a retry (of a pending, consumed or drained intent) is answered `Duplicate` and changes nothing
//!    (pending edges, state root, intent log); a new intent is `Accepted`, gets exactly one pending edge and a
//!    ledger node carrying its bytes; the ledger is append-only;
//!  * the pending edges form a set (`pending_intent_count` = number of distinct pending events);
//!  * `dispatch_next_intent` selects the pending event with the smallest real id, whatever the arrival order,
//!    reports the first matching `cmd/*` rule in rule-id order, and does not touch the graph;
//!  * only a committed tick removes pending edges, and exactly those of the dispatched intent (all of them for
//!    `sys/dispatch_inbox`); an intent is consumed at most once; its handler ran exactly once (order-sensitive
//!    hash chain on the root attachment); a failed commit / abort consumes nothing;
//!  * an engine that saw legacy ingress is not `is_fresh_runtime_state()`.
//! Deviations from the model's prediction that do not break one of these are reported as `drift`.
//! The hashes of every committed tick and the final state root are returned; the runner requires
//! equal hashes for equal abstract keys (and different hashes for different keys) across all behaviours.

use std::collections::{BTreeMap, BTreeSet};

use serde_json::{json, Value};
use warp_core::inbox::{ack_pending_rule, dispatch_inbox_rule, DISPATCH_INBOX_RULE_NAME, INBOX_PATH};
use warp_core::{
    make_node_id, make_type_id, ApplyResult, AtomPayload, AttachmentKey, AttachmentValue, ConflictPolicy,
    DispatchDisposition, Engine, EngineBuilder, Footprint, GraphStore, GraphView, IngestDisposition, NodeId, NodeKey,
    NodeRecord, PatternGraph, RewriteRule, SchedulerKind, TickDelta, TickReceiptDisposition, TxId, WarpOp,
};

use crate::ids;
use crate::util;

pub const UNIVERSE: &[&str] = &["A1", "A2", "B1", "AB1", "N1", "E"];

fn tag(name: &str) -> &str {
    name.trim_end_matches(|c: char| c.is_ascii_digit())
}

/// Canonical bytes of the intent called `name` in the model. "E" is the empty byte string.
pub fn intent_bytes(name: &str) -> Vec<u8> {
    if name == "E" {
        return Vec::new();
    }
    format!("{}:{}/{}", tag(name), name, ids::salt()).into_bytes()
}

/// `intent_id = H("intent:" || bytes)` (docs/spec/canonical-inbox-sequencing.md, Decision 1), computed here
/// independently of the code under test.
fn intent_id(bytes: &[u8]) -> [u8; 32] {
    let mut h = blake3::Hasher::new();
    h.update(b"intent:");
    h.update(bytes);
    *h.finalize().as_bytes()
}

fn root_id() -> NodeId {
    make_node_id("root")
}

// ---- command handlers: cmd/verif-inbox-a matches bytes whose tag contains 'A', -b those containing 'B'.
// Effect: root attachment := H(old root attachment bytes || handler letter || intent bytes)  (order-sensitive).

fn scope_bytes(view: &GraphView<'_>, scope: &NodeId) -> Option<Vec<u8>> {
    match view.node_attachment(scope) {
        Some(AttachmentValue::Atom(a)) if a.type_id == make_type_id("intent") => Some(a.bytes.to_vec()),
        _ => None,
    }
}

fn has_tag(bytes: &[u8], t: u8) -> bool {
    bytes.contains(&b':') && bytes.iter().take_while(|b| **b != b':').any(|b| *b == t)
}

fn chain(old: &[u8], letter: u8, bytes: &[u8]) -> [u8; 32] {
    let mut h = blake3::Hasher::new();
    h.update(old);
    h.update(&[letter]);
    h.update(bytes);
    *h.finalize().as_bytes()
}

fn h_exec(view: GraphView<'_>, scope: &NodeId, delta: &mut TickDelta, letter: u8) {
    let warp = view.warp_id();
    let root = root_id();
    let old: Vec<u8> = match view.node_attachment(&root) {
        Some(AttachmentValue::Atom(a)) => a.bytes.to_vec(),
        _ => Vec::new(),
    };
    let bytes = scope_bytes(&view, scope).unwrap_or_default();
    let new = chain(&old, letter, &bytes);
    delta.push(WarpOp::SetAttachment {
        key: AttachmentKey::node_alpha(NodeKey { warp_id: warp, local_id: root }),
        value: Some(AttachmentValue::Atom(AtomPayload::new(make_type_id("verif/acc"), bytes::Bytes::copy_from_slice(&new)))),
    });
}

fn h_fp(view: GraphView<'_>, scope: &NodeId) -> Footprint {
    let warp = view.warp_id();
    let nk = |n: NodeId| NodeKey { warp_id: warp, local_id: n };
    let mut fp = Footprint { factor_mask: 1, ..Footprint::default() };
    fp.n_read.insert(nk(root_id()));
    fp.n_read.insert(nk(*scope));
    fp.a_read.insert(AttachmentKey::node_alpha(nk(root_id())));
    fp.a_read.insert(AttachmentKey::node_alpha(nk(*scope)));
    fp.a_write.insert(AttachmentKey::node_alpha(nk(root_id())));
    fp
}

fn ma(v: GraphView<'_>, s: &NodeId) -> bool {
    scope_bytes(&v, s).is_some_and(|b| has_tag(&b, b'A'))
}
fn mb(v: GraphView<'_>, s: &NodeId) -> bool {
    scope_bytes(&v, s).is_some_and(|b| has_tag(&b, b'B'))
}
fn ea(v: GraphView<'_>, s: &NodeId, d: &mut TickDelta) {
    h_exec(v, s, d, b'a');
}
fn eb(v: GraphView<'_>, s: &NodeId, d: &mut TickDelta) {
    h_exec(v, s, d, b'b');
}

fn handler_name(letter: char) -> &'static str {
    static NAMES: std::sync::Mutex<BTreeMap<char, &'static str>> = std::sync::Mutex::new(BTreeMap::new());
    let mut g = NAMES.lock().unwrap_or_else(|p| p.into_inner());
    g.entry(letter).or_insert_with(|| Box::leak(format!("cmd/verif-inbox-{letter}{}", ids::salt()).into_boxed_str()))
}

fn handler_id(letter: char) -> [u8; 32] {
    *blake3::hash(format!("rule:{}", handler_name(letter)).as_bytes()).as_bytes()
}

fn handler_rule(letter: char) -> RewriteRule {
    let (matcher, executor): (warp_core::MatchFn, warp_core::ExecuteFn) = if letter == 'a' { (ma, ea) } else { (mb, eb) };
    RewriteRule {
        id: handler_id(letter),
        name: handler_name(letter),
        left: PatternGraph { nodes: vec![] },
        matcher,
        executor,
        compute_footprint: h_fp,
        factor_mask: 1,
        conflict_policy: ConflictPolicy::Abort,
        join_fn: None,
    }
}

/// Handlers in the order of `Engine.canonical_cmd_rules`: (rule id, name) ascending.
fn handlers_in_rule_order() -> Vec<char> {
    let mut v = vec![(handler_id('a'), handler_name('a'), 'a'), (handler_id('b'), handler_name('b'), 'b')];
    v.sort();
    v.into_iter().map(|x| x.2).collect()
}

/// The handler the contract selects for `name`: the first matching cmd/* rule in rule-id order.
fn expected_handler(name: &str) -> Option<char> {
    let bytes = intent_bytes(name);
    handlers_in_rule_order().into_iter().find(|l| has_tag(&bytes, l.to_ascii_uppercase() as u8))
}

pub fn run_ranks() -> i32 {
    let mut ids_: Vec<([u8; 32], &str)> = UNIVERSE.iter().map(|n| (intent_id(&intent_bytes(n)), *n)).collect();
    ids_.sort();
    let mut m = serde_json::Map::new();
    for (i, (_, n)) in ids_.iter().enumerate() {
        m.insert((*n).to_string(), json!(i + 1));
    }
    let mut h = serde_json::Map::new();
    for (i, l) in handlers_in_rule_order().iter().enumerate() {
        h.insert(l.to_string(), json!(i + 1));
    }
    println!("{}", json!({"intents": m, "handlers": h, "salt": ids::salt()}));
    0
}

// ---- the world -----------------------------------------------------------------------------------

struct World {
    engine: Engine,
    tx: Option<TxId>,
    names: BTreeMap<[u8; 32], String>,
    /// intents the real engine accepted so far
    ledger: BTreeSet<String>,
    /// intents whose pending edge a committed tick removed (ack or drain-all), in commit order
    consumed: Vec<String>,
    removed: BTreeSet<String>,
    /// intent dispatched in the open transaction / drain-all applied
    tx_dispatched: Option<String>,
    tx_drain: bool,
    /// expected root attachment: hash chain over the handled intents in REAL consumed order
    acc: Vec<u8>,
    ticks: Vec<Value>,
    dups: usize,
    /// (pending set, state root) observed after the last call; root is `None` when it was not computed
    cur: Option<(BTreeSet<String>, Option<[u8; 32]>)>,
}

struct Viol {
    kind: String,
    detail: String,
}

fn viol<T>(kind: &str, detail: String) -> Result<T, Viol> {
    Err(Viol { kind: kind.to_string(), detail })
}

fn build(variant: usize) -> Result<World, String> {
    let mut store = GraphStore::default();
    store.insert_node(root_id(), NodeRecord { ty: make_type_id("world") });
    let kind = if variant % 2 == 0 { SchedulerKind::Radix } else { SchedulerKind::Legacy };
    let mut engine = EngineBuilder::new(store, root_id()).scheduler(kind).workers(1).build();
    // registration order must not matter (canonical_cmd_rules is sorted by rule id)
    let order = if (variant / 2) % 2 == 0 { ['a', 'b'] } else { ['b', 'a'] };
    if variant % 3 == 0 {
        engine.register_rule(ack_pending_rule()).map_err(|e| format!("{e:?}"))?;
    }
    for l in order {
        engine.register_rule(handler_rule(l)).map_err(|e| format!("{e:?}"))?;
    }
    if variant % 3 != 0 {
        engine.register_rule(ack_pending_rule()).map_err(|e| format!("{e:?}"))?;
    }
    engine.register_rule(dispatch_inbox_rule()).map_err(|e| format!("{e:?}"))?;
    if !engine.is_fresh_runtime_state() {
        return Err("a newly built engine is not fresh".into());
    }
    let names = UNIVERSE.iter().map(|n| (intent_id(&intent_bytes(n)), (*n).to_string())).collect();
    Ok(World {
        engine,
        tx: None,
        names,
        ledger: BTreeSet::new(),
        consumed: Vec::new(),
        removed: BTreeSet::new(),
        tx_dispatched: None,
        tx_drain: false,
        acc: Vec::new(),
        ticks: Vec::new(),
        dups: 0,
        cur: None,
    })
}

impl World {
    fn store(&self) -> Result<&GraphStore, Viol> {
        let w = self.engine.root_key().warp_id;
        match self.engine.state().store(&w) {
            Some(s) => Ok(s),
            None => viol("root_store_missing", "root warp store missing".into()),
        }
    }

    /// Real pending entries: targets of the `edge:pending` edges of sim/inbox, in bucket order.
    fn pending_ids(&self) -> Result<Vec<NodeId>, Viol> {
        let inbox = make_node_id(INBOX_PATH);
        let ty = make_type_id("edge:pending");
        Ok(self.store()?.edges_from(&inbox).filter(|e| e.ty == ty).map(|e| e.to).collect())
    }

    /// Pending set by name; decides "pending is a set" and agreement with `pending_intent_count`.
    fn pending(&self) -> Result<BTreeSet<String>, Viol> {
        let ids_ = self.pending_ids()?;
        let mut out = BTreeSet::new();
        for id in &ids_ {
            let Some(n) = self.names.get(&id.0) else {
                return viol("pending_edge_to_unknown_event", format!("pending edge targets {}", util::hex32(&id.0)));
            };
            if !out.insert(n.clone()) {
                return viol("pending_not_a_set", format!("two pending edges for intent {n}"));
            }
        }
        match self.engine.pending_intent_count() {
            Ok(c) if c == out.len() => {}
            other => return viol("pending_count_mismatch", format!("pending_intent_count() = {other:?}, distinct pending events = {}", out.len())),
        }
        Ok(out)
    }

    fn root(&self) -> [u8; 32] {
        self.engine.snapshot().state_root
    }

    /// Observation before a call: the one made after the previous call (nothing can have changed in between).
    fn before(&mut self, light: bool) -> Result<(BTreeSet<String>, [u8; 32]), Viol> {
        let (p, r) = match self.cur.take() {
            Some(c) => c,
            None => (self.pending()?, None),
        };
        let r = if light { [0u8; 32] } else { r.unwrap_or_else(|| self.root()) };
        Ok((p, r))
    }

    /// Observation after a call (kept for the next call).
    fn after(&mut self, light: bool) -> Result<(BTreeSet<String>, [u8; 32]), Viol> {
        let p = self.pending()?;
        let r = if light { None } else { Some(self.root()) };
        self.cur = Some((p.clone(), r));
        Ok((p, r.unwrap_or([0u8; 32])))
    }

    fn log(&self) -> Vec<(u64, Vec<u8>)> {
        self.engine.get_intent_log().iter().map(|(s, p)| (*s, p.bytes.to_vec())).collect()
    }

    /// Ledger is append-only: every intent ever accepted still has its event node with its bytes.
    fn ledger_intact(&self) -> Result<(), Viol> {
        let store = self.store()?;
        for n in &self.ledger {
            let bytes = intent_bytes(n);
            let id = NodeId(intent_id(&bytes));
            let ok = store.node(&id).is_some()
                && matches!(store.node_attachment(&id), Some(AttachmentValue::Atom(a)) if a.bytes.as_ref() == bytes.as_slice() && a.type_id == make_type_id("intent"));
            if !ok {
                return viol("ledger_entry_lost_or_changed", format!("event node of {n} missing or its attachment changed"));
            }
        }
        Ok(())
    }

    fn fresh_law(&self) -> Result<bool, Viol> {
        let fresh = self.engine.is_fresh_runtime_state();
        if fresh && (!self.ledger.is_empty() || !self.engine.get_intent_log().is_empty()) {
            return viol("fresh_after_legacy_ingress", format!("is_fresh_runtime_state() = true with legacy ledger {:?}", self.ledger));
        }
        Ok(fresh)
    }
}

fn s(v: &Value, k: &str) -> String {
    v.get(k).and_then(Value::as_str).unwrap_or("").to_string()
}

/// Applies one call; returns the observed (disp, intent, handler, ok) for comparison with the model.
/// `light`: the call belongs to a witness prefix that was checked as its own case; only bookkeeping and the
/// cheap decisions are made (no before / after state-root comparison).
fn step(w: &mut World, op: &Value, light: bool) -> Result<(String, String, String, bool), Viol> {
    let a = s(op, "a");
    match a.as_str() {
        "ingest" => {
            let name = s(op, "i");
            let api = s(op, "api");
            let seq = op.get("seq").and_then(Value::as_u64).unwrap_or(0);
            let bytes = intent_bytes(&name);
            let want_id = intent_id(&bytes);
            let existed = w.store()?.node(&NodeId(want_id)).is_some();
            if existed != w.ledger.contains(&name) {
                return viol("ledger_membership", format!("event node of {name} exists = {existed}, accepted before = {}", !existed));
            }
            let b = w.before(light)?;
            let before = (b.0, b.1, w.log());
            let accepted = if api == "event" {
                // the payload's type id is not identity: use a foreign type on purpose
                let p = AtomPayload::new(make_type_id("verif/legacy-envelope"), bytes::Bytes::from(bytes.clone()));
                match w.engine.ingest_inbox_event(seq, &p) {
                    Ok(()) => {}
                    Err(e) => return viol("ingest_failed", format!("ingest_inbox_event({name}): {e:?}")),
                }
                let log = w.log();
                if log.len() == before.2.len() + 1 {
                    if log.last() != Some(&(seq, bytes.clone())) {
                        return viol("intent_log_entry_wrong", format!("log entry for {name}: {:?}", log.last().map(|x| x.0)));
                    }
                    true
                } else if log == before.2 {
                    false
                } else {
                    return viol("intent_log_rewritten", format!("log length {} -> {}", before.2.len(), log.len()));
                }
            } else {
                match w.engine.ingest_intent(&bytes) {
                    Ok(IngestDisposition::Accepted { intent_id: got }) | Ok(IngestDisposition::Duplicate { intent_id: got }) if got != want_id => {
                        return viol("identity_not_content_hash", format!("{name}: returned id {} != H(intent:||bytes) {}", util::hex32(&got), util::hex32(&want_id)));
                    }
                    Ok(IngestDisposition::Accepted { .. }) => true,
                    Ok(IngestDisposition::Duplicate { .. }) => false,
                    Err(e) => return viol("ingest_failed", format!("ingest_intent({name}): {e:?}")),
                }
            };
            let a2 = w.after(light)?;
            let after = (a2.0, a2.1, w.log());
            if existed {
                let state = if w.removed.contains(&name) { "consumed" } else { "pending" };
                if accepted {
                    return viol(&format!("retry_accepted:{state}"), format!("{name} ({state}) re-ingested via {api}: accepted again; pending {:?} -> {:?}", before.0, after.0));
                }
                if after.0 != before.0 || after.1 != before.1 || (api != "event" && after.2 != before.2) {
                    return viol(&format!("retry_changed_state:{state}"), format!("{name} ({state}) retried via {api}: pending {:?} -> {:?}, root changed = {}", before.0, after.0, after.1 != before.1));
                }
                w.dups += 1;
            } else {
                if !accepted {
                    return viol("new_intent_not_accepted", format!("{name} never seen, answered Duplicate / not logged (api {api})"));
                }
                let mut want = before.0.clone();
                want.insert(name.clone());
                if after.0 != want {
                    return viol("accept_pending_delta", format!("accepting {name}: pending {:?} -> {:?}", before.0, after.0));
                }
                if api != "event" && after.2 != before.2 {
                    return viol("intent_log_rewritten", "ingest_intent changed the intent log".into());
                }
                w.ledger.insert(name.clone());
            }
            if !light {
                w.ledger_intact()?;
            }
            Ok((if accepted { "Accepted" } else { "Duplicate" }.into(), name, "-".into(), true))
        }
        "begin" => {
            let before = w.before(light)?;
            w.tx = Some(w.engine.begin());
            let after = w.after(light)?;
            if after != before {
                return viol("begin_changed_state", format!("pending {:?} -> {:?}", before.0, after.0));
            }
            w.tx_dispatched = None;
            w.tx_drain = false;
            Ok(("-".into(), "-".into(), "-".into(), true))
        }
        "dispatch" => {
            let Some(tx) = w.tx else { return viol("harness", "dispatch without tx".into()) };
            let before = w.before(light)?;
            let ids_ = w.pending_ids()?;
            let min = ids_.iter().min().copied();
            let got = w.engine.dispatch_next_intent(tx);
            let after = w.after(light)?;
            if after != before {
                return viol("dispatch_mutated_graph", format!("pending {:?} -> {:?}", before.0, after.0));
            }
            match (got, min) {
                (Ok(DispatchDisposition::NoPending), None) => Ok(("NoPending".into(), "-".into(), "-".into(), true)),
                (Ok(DispatchDisposition::Consumed { intent_id: got, handler_matched }), Some(m)) => {
                    let gname = w.names.get(&got).cloned().unwrap_or_else(|| util::hex32(&got));
                    if got != m.0 {
                        let arrival: Vec<String> = ids_.iter().map(|i| w.names.get(&i.0).cloned().unwrap_or_default()).collect();
                        let pos = ids_.iter().position(|i| i.0 == got);
                        return viol(
                            "dispatch_not_smallest_id",
                            format!("pending in arrival order {arrival:?}: dispatched {gname} (arrival position {pos:?}), smallest id is {}",
                                w.names.get(&m.0).cloned().unwrap_or_default()),
                        );
                    }
                    if w.removed.contains(&gname) {
                        return viol("consumed_twice", format!("{gname} dispatched again after its pending edge was removed"));
                    }
                    let want_h = expected_handler(&gname);
                    if handler_matched != want_h.is_some() {
                        return viol("handler_matched_flag", format!("{gname}: handler_matched = {handler_matched}, a matching cmd rule exists = {}", want_h.is_some()));
                    }
                    w.tx_dispatched = Some(gname.clone());
                    Ok(("Consumed".into(), gname, want_h.map_or("-".to_string(), |c| c.to_string()), true))
                }
                (Ok(d), m) => viol("dispatch_disposition", format!("{d:?} with {} pending", if m.is_some() { "some" } else { "nothing" })),
                (Err(e), _) => viol("dispatch_failed", format!("{e:?}")),
            }
        }
        "drainall" => {
            let Some(tx) = w.tx else { return viol("harness", "drainall without tx".into()) };
            let before = w.before(light)?;
            let got = w.engine.apply(tx, DISPATCH_INBOX_RULE_NAME, &make_node_id(INBOX_PATH));
            let after = w.after(light)?;
            if after != before {
                return viol("apply_mutated_graph", format!("pending {:?} -> {:?}", before.0, after.0));
            }
            match got {
                Ok(ApplyResult::Applied) if !before.0.is_empty() => {
                    w.tx_drain = true;
                    Ok(("Applied".into(), "-".into(), "-".into(), true))
                }
                Ok(ApplyResult::NoMatch) if before.0.is_empty() => Ok(("NoMatch".into(), "-".into(), "-".into(), true)),
                other => viol("dispatch_inbox_match", format!("apply(sys/dispatch_inbox) = {other:?} with pending {:?}", before.0)),
            }
        }
        "commit" => {
            let Some(tx) = w.tx else { return viol("harness", "commit without tx".into()) };
            let before = w.before(false)?;
            let res = std::panic::catch_unwind(std::panic::AssertUnwindSafe(|| w.engine.commit_with_receipt(tx))).map_err(|p| util::panic_message(&p));
            let after = w.after(false)?;
            match res {
                Ok(Ok((snap, receipt, patch))) => {
                    w.tx = None;
                    let mut want = before.0.clone();
                    let mut gone: Vec<String> = Vec::new();
                    if w.tx_drain {
                        gone = before.0.iter().cloned().collect();
                        want.clear();
                    } else if let Some(d) = &w.tx_dispatched {
                        if want.remove(d) {
                            gone.push(d.clone());
                        }
                    }
                    if after.0 != want {
                        return viol(
                            "commit_consumed_wrong_set",
                            format!("pending {:?} -> {:?}; dispatched {:?}, drain-all {}", before.0, after.0, w.tx_dispatched, w.tx_drain),
                        );
                    }
                    if let Some(e) = receipt.entries().iter().find(|e| !matches!(e.disposition, TickReceiptDisposition::Applied)) {
                        return viol("inbox_rewrite_rejected", format!("rule {} rejected: {:?}", util::hex32(&e.rule_id), e.disposition));
                    }
                    for g in &gone {
                        if !w.removed.insert(g.clone()) {
                            return viol("consumed_twice", format!("{g} consumed by two ticks"));
                        }
                        w.consumed.push(g.clone());
                    }
                    // handler effect: exactly once, for the dispatched intent, by the first handler in rule-id order
                    if let (false, Some(d)) = (w.tx_drain, &w.tx_dispatched) {
                        if let Some(l) = expected_handler(d) {
                            w.acc = chain(&w.acc, l as u8, &intent_bytes(d)).to_vec();
                        }
                    }
                    let real_acc: Vec<u8> = match w.store()?.node_attachment(&root_id()) {
                        Some(AttachmentValue::Atom(a)) => a.bytes.to_vec(),
                        _ => Vec::new(),
                    };
                    if real_acc != w.acc {
                        return viol("handler_effect", format!("root attachment is not the hash chain of the handled intents in consumed order {:?}", w.consumed));
                    }
                    if snap.state_root != after.1 {
                        return viol("snapshot_root", "commit's state_root differs from the state root of the engine's state".into());
                    }
                    w.ledger_intact()?;
                    w.ticks.push(json!({
                        "root": util::hex32(&snap.state_root), "commit": util::hex32(&snap.hash), "patch": util::hex32(&snap.patch_digest),
                        "receipt": util::hex32(&receipt.digest()), "plan": util::hex32(&snap.plan_digest), "ops": patch.ops().len(),
                    }));
                    w.tx_dispatched = None;
                    w.tx_drain = false;
                    Ok(("Committed".into(), "-".into(), "-".into(), true))
                }
                Ok(Err(e)) => {
                    if after != before {
                        return viol("failed_commit_changed_state", format!("error {e:?}; pending {:?} -> {:?}", before.0, after.0));
                    }
                    Ok((format!("Error:{e:?}"), "-".into(), "-".into(), false))
                }
                Err(p) => {
                    if after != before {
                        return viol("failed_commit_changed_state", format!("panic {p}; pending {:?} -> {:?}", before.0, after.0));
                    }
                    w.tx_dispatched = None;
                    w.tx_drain = false;
                    Ok((format!("Panic:{}", p.split('(').next().unwrap_or("")), "-".into(), "-".into(), false))
                }
            }
        }
        "abort" => {
            let Some(tx) = w.tx.take() else { return viol("harness", "abort without tx".into()) };
            let before = w.before(light)?;
            w.engine.abort(tx);
            let after = w.after(light)?;
            if after != before {
                return viol("abort_changed_state", format!("pending {:?} -> {:?}", before.0, after.0));
            }
            w.tx_dispatched = None;
            w.tx_drain = false;
            Ok(("-".into(), "-".into(), "-".into(), true))
        }
        other => viol("harness", format!("unknown op {other}")),
    }
}

fn names_of(v: Option<&Value>) -> Vec<String> {
    v.and_then(Value::as_array).map(|a| a.iter().filter_map(|x| x.as_str().map(str::to_string)).collect()).unwrap_or_default()
}

fn check_case(idx: usize, case: &Value) -> Value {
    let empty = Vec::new();
    let path = case.get("path").and_then(Value::as_array).unwrap_or(&empty);
    let obs = case.get("obs").and_then(Value::as_array).unwrap_or(&empty);
    if path.is_empty() || obs.len() > path.len() {
        return json!({"verdict":"tool_error","detail":"case without path / more observations than calls"});
    }
    let mut w = match build(idx) {
        Ok(w) => w,
        Err(e) => return json!({"verdict":"tool_error","detail":e}),
    };
    let first_obs = path.len() - obs.len();
    let mut drift: Vec<String> = Vec::new();
    for (k, op) in path.iter().enumerate() {
        let fail = |v: Viol, w: &World| {
            json!({"verdict":"violation","kind":v.kind,"detail":v.detail,"step":k,"op":op,"ticks":w.ticks})
        };
        let got = match step(&mut w, op, k < first_obs) {
            Ok(g) => g,
            Err(v) if v.kind == "harness" => return json!({"verdict":"tool_error","detail":v.detail}),
            Err(v) => return fail(v, &w),
        };
        let fresh = match w.fresh_law() {
            Ok(f) => f,
            Err(v) => return fail(v, &w),
        };
        if k < first_obs {
            continue;
        }
        let o = &obs[k - first_obs];
        let (r, st) = (&o["r"], &o["s"]);
        let a = s(op, "a");
        let want_ok = r["ok"].as_bool().unwrap_or(true);
        if a == "commit" && want_ok && !got.3 {
            return fail(Viol { kind: "honest_tick_failed".into(), detail: format!("model predicts a committed tick, real commit: {}", got.0) }, &w);
        }
        if got.3 != want_ok {
            drift.push(format!("step {k} {a}: ok real {} model {}", got.3, want_ok));
        }
        let want_d = s(r, "d");
        let cmp_d = if a == "commit" && !got.3 { got.0.split(':').next().unwrap_or("").to_string() } else { got.0.clone() };
        if matches!(a.as_str(), "ingest" | "dispatch" | "drainall" | "commit") && cmp_d != want_d {
            drift.push(format!("step {k} {a}: disposition real {} model {}", got.0, want_d));
        }
        if a == "dispatch" && (got.1 != s(r, "i") || got.2 != s(r, "h")) {
            drift.push(format!("step {k} dispatch: real ({}, {}) model ({}, {})", got.1, got.2, s(r, "i"), s(r, "h")));
        }
        let pend: BTreeSet<String> = match &w.cur {
            Some((p, _)) => p.clone(),
            None => match w.pending() {
                Ok(p) => p,
                Err(v) => return fail(v, &w),
            },
        };
        let want_p: BTreeSet<String> = names_of(st.get("p")).into_iter().collect();
        if pend != want_p {
            drift.push(format!("step {k} {a}: pending real {pend:?} model {want_p:?}"));
        }
        if Some(fresh) != st["f"].as_bool() {
            drift.push(format!("step {k} {a}: fresh real {fresh} model {}", st["f"]));
        }
        if Some(w.engine.get_intent_log().len() as u64) != st["l"].as_u64() {
            drift.push(format!("step {k} {a}: log length real {} model {}", w.engine.get_intent_log().len(), st["l"]));
        }
        if Some(w.engine.get_ledger().len() as u64) != st["t"].as_u64() {
            drift.push(format!("step {k} {a}: ticks real {} model {}", w.engine.get_ledger().len(), st["t"]));
        }
    }
    // final state against the full projection
    let fin = &case["final"];
    if names_of(fin.get("consumed")) != w.consumed.iter().filter(|c| !names_of(fin.get("dropped")).contains(c)).cloned().collect::<Vec<_>>() {
        drift.push(format!("consumed order real {:?} model {:?} (+ drained {:?})", w.consumed, names_of(fin.get("consumed")), names_of(fin.get("dropped"))));
    }
    let real_log: Vec<(u64, String)> = w.log().into_iter().map(|(q, b)| (q, UNIVERSE.iter().find(|n| intent_bytes(n) == b).map_or("?".to_string(), |n| (*n).to_string()))).collect();
    let want_log: Vec<(u64, String)> = fin["log"].as_array().map(|a| a.iter().map(|e| (e["seq"].as_u64().unwrap_or(0), s(e, "i"))).collect()).unwrap_or_default();
    if real_log != want_log {
        drift.push(format!("intent log real {real_log:?} model {want_log:?}"));
    }
    let mut seen = BTreeSet::new();
    if !real_log.iter().all(|(_, n)| seen.insert(n.clone())) {
        return json!({"verdict":"violation","kind":"intent_log_duplicate","detail":format!("{real_log:?}"),"step":path.len(),"ticks":w.ticks});
    }
    let want_ledger: BTreeSet<String> = names_of(fin.get("ledger")).into_iter().collect();
    if want_ledger != w.ledger {
        drift.push(format!("ledger real {:?} model {want_ledger:?}", w.ledger));
    }
    drift.truncate(4);
    json!({"verdict":"ok","drift":drift,"ticks":w.ticks,"final_root":util::hex32(&w.root()),
           "dups":w.dups,"consumed":w.consumed.len(),"variant":idx % 6})
}

pub fn run(args: &[String]) -> i32 {
    if args.len() < 2 {
        eprintln!("usage: echo-verif c08l <cases.ndjson> <results.ndjson>");
        return 2;
    }
    // every commit of the code under test spawns a worker thread; cases are independent, so they are replayed
    // on a few harness threads (results are written in input order)
    let cases: Vec<(usize, Value)> = util::read_lines(&args[0]).collect();
    let nthreads: usize = std::env::var("VERIF_C08L_THREADS").ok().and_then(|v| v.parse().ok()).unwrap_or(1).clamp(1, 8);
    let prev = std::panic::take_hook();
    std::panic::set_hook(Box::new(|_| {}));
    let mut results: Vec<(usize, Value)> = std::thread::scope(|sc| {
        let handles: Vec<_> = (0..nthreads)
            .map(|t| {
                let cases = &cases;
                sc.spawn(move || {
                    let mut out = Vec::new();
                    for (pos, (idx, case)) in cases.iter().enumerate() {
                        if pos % nthreads != t {
                            continue;
                        }
                        let v = match std::panic::catch_unwind(std::panic::AssertUnwindSafe(|| check_case(*idx, case))) {
                            Ok(v) => v,
                            // a panic outside commit (ingest / dispatch / apply / abort) is data about the code under test
                            Err(p) => json!({"verdict":"violation","kind":"panic_in_inbox_call","detail":format!("panic: {}", util::panic_message(&p))}),
                        };
                        out.push((pos, v));
                    }
                    out
                })
            })
            .collect();
        handles.into_iter().flat_map(|h| h.join().unwrap_or_default()).collect()
    });
    std::panic::set_hook(prev);
    if results.len() != cases.len() {
        eprintln!("a harness thread died");
        return 2;
    }
    results.sort_by_key(|r| r.0);
    let mut out = util::Out::create(&args[1]);
    for (_, v) in &results {
        out.line(v);
    }
    out.finish();
    0
}
