\* C20 quick, export: every behaviour of 3 calls of BOTH tiers, all ops incl. get/has/load as own steps; memory tier with the retention index (2 coordinates), disk tier with all 7 file faults (at most 2 faults)
SPECIFICATION Spec
CONSTANTS
  Blobs = {"a", "b"}
  Coords = {"k0", "k1"}
  Tiers = {"mem", "disk"}
  Faults = {"flip", "trunc", "swap", "delete", "tmp", "junk", "dir"}
  MaxFaults = 2
  Size <- MC_Size
  MaxBytes = 2
  MemFastPath = FALSE
  ReadOps = TRUE
  WithIndex = TRUE
  Export = TRUE
  MaxLen = 3
INVARIANTS TypeOK Inv_GetIntact Inv_MemWellFormed Inv_CorruptionDetected Inv_HasMeansGet Inv_LoadIntact Inv_Export
PROPERTIES P_MismatchRefused P_PutIdempotent P_PinKeepsContent P_ReadsReadOnly P_Reopen P_IndexStable
CONSTRAINT DepthBound
CHECK_DEADLOCK FALSE
