//! C01 (and the tick-level facets of C02/C04): replay of model-enumerated enqueue
//! behaviours into a real `Engine`.
//!
//! Per behaviour and per engine configuration (scheduler kind x worker count) the harness
//! applies the candidates in the given order (with repetitions), commits, and compares the
//! receipt (drain order, dispositions, blockers), the projected post-state and the patch ops
//! with the model's prediction; it also replays the emitted patch onto the pre-state.
//! The hashes of every configuration are returned so the runner can require bit-identical
//! outcomes across all behaviours of one (pre-state, candidate set) group.

use serde::Deserialize;
use serde_json::{json, Value};
use warp_core::{ApplyResult, Engine, EngineBuilder, SchedulerKind, TickReceiptDisposition, WarpState};

use crate::absgraph::{self, OpJ, StateJ};
use crate::ids::{self, Inverse};
use crate::programs::{self, Program};
use crate::util;

#[derive(Deserialize, Clone, Debug, PartialEq, Eq)]
pub struct CandJ {
    pub r: usize,
    pub w: String,
    pub n: String,
}

#[derive(Deserialize)]
struct Case {
    pre: StateJ,
    #[serde(rename = "preName")]
    pre_name: String,
    seq: Vec<CandJ>,
    order: Vec<CandJ>,
    acc: Vec<bool>,
    blk: Vec<Vec<u32>>,
    ok: bool,
    post: StateJ,
    patch: Vec<OpJ>,
    prog: Vec<Program>,
    #[serde(default)]
    descent: std::collections::BTreeMap<String, Vec<absgraph::KeyJ>>,
}

pub type Descent = std::collections::BTreeMap<String, Vec<absgraph::KeyJ>>;

pub fn descent_stack(descent: &Descent, w: &str) -> Vec<warp_core::AttachmentKey> {
    descent.get(w).map(|ks| ks.iter().filter_map(absgraph::key_to_real).collect()).unwrap_or_default()
}

pub fn build_engine(pre: &WarpState, nrules: usize, kind: SchedulerKind, workers: usize) -> Result<Engine, String> {
    let root = absgraph::nkey("w0", "n0");
    let mut engine = EngineBuilder::from_state(pre.clone(), root)
        .scheduler(kind)
        .workers(workers)
        .build()
        .map_err(|e| format!("engine build: {e:?}"))?;
    for r in 1..=nrules {
        engine.register_rule(programs::rule(r)).map_err(|e| format!("register rule {r}: {e:?}"))?;
    }
    Ok(engine)
}

pub struct TickOut {
    pub hashes: Value,
    pub engine: Engine,
    pub receipt: warp_core::TickReceipt,
    pub patch: warp_core::WarpTickPatchV1,
}

/// Applies `seq` and commits; Err(..) carries (kind, detail) of a failed commit.
pub fn run_tick(pre: &WarpState, nrules: usize, seq: &[CandJ], descent: &Descent, kind: SchedulerKind, workers: usize) -> Result<Result<TickOut, String>, String> {
    let mut engine = build_engine(pre, nrules, kind, workers)?;
    let tx = engine.begin();
    for c in seq {
        let res = engine
            .apply_in_warp(tx, ids::warp(&c.w), programs::rule_name(c.r), &ids::node(&c.n), &descent_stack(descent, &c.w))
            .map_err(|e| format!("apply failed: {e:?}"))?;
        if !matches!(res, ApplyResult::Applied) {
            return Err(format!("candidate {c:?} did not match in the real engine"));
        }
    }
    let committed = util::catch(|| engine.commit_with_receipt(tx));
    match committed {
        Err(p) => Ok(Err(format!("panic: {p}"))),
        Ok(Err(e)) => Ok(Err(format!("error: {e:?}"))),
        Ok(Ok((snap, receipt, patch))) => {
            let hashes = json!({
                "state_root": util::hex32(&snap.state_root), "commit": util::hex32(&snap.hash),
                "patch": util::hex32(&snap.patch_digest), "plan": util::hex32(&snap.plan_digest),
                "decision": util::hex32(&snap.decision_digest), "rewrites": util::hex32(&snap.rewrites_digest),
                "receipt": util::hex32(&receipt.digest()),
            });
            Ok(Ok(TickOut { hashes, engine, receipt, patch }))
        }
    }
}

pub fn check_case(inv: &Inverse, v: &Value) -> Value {
    let case: Case = match serde_json::from_value(v.clone()) {
        Ok(c) => c,
        Err(e) => return json!({"verdict":"tool_error","detail":format!("case parse: {e}")}),
    };
    programs::install(&case.prog);
    let pre = absgraph::build_state(&case.pre);
    let want_post = case.post.clone().normalized();
    let mut set: Vec<String> = case.seq.iter().map(|c| format!("{}|{}|{}", c.r, c.w, c.n)).collect();
    set.sort();
    set.dedup();
    let group = format!("{}#{}", case.pre_name, set.join(","));
    let mut drift: Vec<String> = Vec::new();
    let mut all_hashes = serde_json::Map::new();
    for (kind, kname) in [(SchedulerKind::Radix, "radix"), (SchedulerKind::Legacy, "legacy")] {
        for workers in [1usize, 4] {
            let cfg = format!("{kname}/{workers}");
            let out = match run_tick(&pre, case.prog.len(), &case.seq, &case.descent, kind, workers) {
                Err(e) => return json!({"verdict":"tool_error","detail":format!("{cfg}: {e}")}),
                Ok(o) => o,
            };
            let out = match out {
                Err(e) => {
                    if case.ok {
                        // every candidate is honest and applicable: the tick must commit
                        // (post = pre + accepted effects); a failure is a violation, not drift
                        return json!({"verdict":"violation","kind":"honest_tick_failed","group":group,
                            "detail":format!("{cfg}: oracle predicts a committed tick, real commit failed: {}", &e[..e.len().min(300)])});
                    }
                    all_hashes.insert(cfg, json!({"failed": e.split(':').next().unwrap_or("") }));
                    continue;
                }
                Ok(o) => o,
            };
            if !case.ok {
                drift.push(format!("{cfg}: model predicted a failing apply, real commit succeeded"));
            }
            // --- receipt: drain order, dispositions, blockers (decided against the model = the oracle)
            let entries = out.receipt.entries();
            if entries.len() != case.order.len() {
                return json!({"verdict":"violation","kind":"receipt_length","group":group,
                    "detail":format!("{cfg}: {} receipt entries for {} distinct candidates", entries.len(), case.order.len())});
            }
            for (i, (e, c)) in entries.iter().zip(case.order.iter()).enumerate() {
                let same = e.rule_id == programs::rule_id(c.r) && e.scope == absgraph::nkey(&c.w, &c.n);
                if !same {
                    return json!({"verdict":"violation","kind":"drain_order","group":group,
                        "detail":format!("{cfg}: receipt entry {i} is not candidate {c:?}")});
                }
                let accepted = matches!(e.disposition, TickReceiptDisposition::Applied);
                if accepted != case.acc[i] {
                    return json!({"verdict":"violation","kind":"admission_not_canonical","group":group,
                        "detail":format!("{cfg}: entry {i} accepted={accepted}, oracle says {}", case.acc[i])});
                }
                let mut got: Vec<u32> = out.receipt.blocked_by(i).to_vec();
                got.sort();
                let mut want: Vec<u32> = case.blk[i].iter().map(|p| p - 1).collect();
                want.sort();
                if got != want {
                    return json!({"verdict":"violation","kind":"blockers_not_exact","group":group,
                        "detail":format!("{cfg}: entry {i} blocked_by {got:?}, oracle says {want:?}")});
                }
            }
            // --- post-state = pre + effects of accepted rewrites evaluated at pre (the model's post)
            match absgraph::project_state(inv, out.engine.state()) {
                Ok(p) if p == want_post => {}
                Ok(p) => {
                    return json!({"verdict":"violation","kind":"post_state_not_oracle","group":group,
                        "detail":format!("{cfg}: got {} want {}", serde_json::to_string(&p).unwrap_or_default(),
                            serde_json::to_string(&want_post).unwrap_or_default())})
                }
                Err(e) => return json!({"verdict":"violation","kind":"post_state_malformed","group":group,"detail":format!("{cfg}: {e}")}),
            }
            // --- patch ops vs model Diff (drift only) and patch replay (C04 on a real tick)
            let real_ops: Result<Vec<OpJ>, String> = out.patch.ops().iter().map(|o| absgraph::op_to_abs(inv, o)).collect();
            match real_ops {
                Ok(ops) if ops == case.patch => {}
                other => drift.push(format!("{cfg}: patch ops differ from model Diff: {other:?}")),
            }
            let mut replayed = pre.clone();
            match util::catch(|| out.patch.apply_to_state(&mut replayed)) {
                Ok(Ok(())) => {
                    let root = absgraph::nkey("w0", "n0");
                    let rr = warp_core::verif::legacy_state_root(&replayed, &root);
                    let er = warp_core::verif::legacy_state_root(out.engine.state(), &root);
                    let same = absgraph::project_state(inv, &replayed).ok() == Some(want_post.clone());
                    if !same || rr != er {
                        return json!({"verdict":"violation","kind":"patch_replay_differs","group":group,
                            "detail":format!("{cfg}: patch.apply_to_state(pre) != post (projection equal: {same}, roots equal: {})", rr == er)});
                    }
                }
                other => {
                    return json!({"verdict":"violation","kind":"patch_replay_failed","group":group,
                        "detail":format!("{cfg}: {other:?}")})
                }
            }
            all_hashes.insert(cfg, out.hashes);
        }
    }
    json!({"verdict":"ok","group":group,"hashes":all_hashes,"drift":drift,
           "rejected": case.acc.iter().filter(|a| !**a).count()})
}

pub fn run(args: &[String]) -> i32 {
    if args.len() < 2 {
        eprintln!("usage: echo-verif c01 <cases.ndjson> <results.ndjson>");
        return 2;
    }
    let inv = Inverse::new();
    let mut out = util::Out::create(&args[1]);
    let (mut n, mut viol, mut tool) = (0u64, 0u64, 0u64);
    for (i, v) in util::read_lines(&args[0]) {
        let mut r = check_case(&inv, &v);
        r["i"] = json!(i);
        n += 1;
        match r["verdict"].as_str() {
            Some("violation") => viol += 1,
            Some("tool_error") => tool += 1,
            _ => {}
        }
        out.line(&r);
    }
    out.finish();
    println!("{}", json!({"cases":n,"violations":viol,"tool_errors":tool}));
    if tool > 0 { 2 } else { 0 }
}

// --------------------------------------------------------------------------- large candidate sets (threshold leg)

use rand::rngs::StdRng;
use rand::seq::SliceRandom;
use rand::{Rng, SeedableRng};

/// Large ticks through the public engine API on both sides of the scheduler's 1024-entry threshold:
/// the same candidate set is enqueued in several orders (shuffled, reversed, with repetitions) on both
/// scheduler kinds; all hashes must be identical, and the receipt of the first run is written as a trace
/// (rows in receipt order with sort key, footprint resources, decision, blockers) for TickTrace.tla.
pub fn run_big(args: &[String]) -> i32 {
    if args.len() < 3 {
        eprintln!("usage: echo-verif c01-big <trace.ndjson> <seed> <tier>");
        return 2;
    }
    let seed: u64 = args[1].parse().unwrap_or(1);
    let thorough = args[2] == "thorough";
    let mut rng = StdRng::seed_from_u64(seed);
    let mut out = util::Out::create(&args[0]);
    let progs = vec![
        Program { kind: "SetAtom".into(), a: "S".into(), b: "S".into(), e: "e0".into(), ty: "tA".into(), ty2: "tA".into(), p: "p0".into(), ..Default::default() },
        Program { kind: "RetypeByAtt".into(), a: "S".into(), b: "S".into(), e: "e0".into(), ty: "tB".into(), ty2: "tA".into(), p: "p0".into(), ..Default::default() },
        Program { kind: "SetAtom".into(), a: "S".into(), b: "S".into(), e: "e0".into(), ty: "tA".into(), ty2: "tA".into(), p: "p1".into(), ..Default::default() },
        Program { kind: "CopyAtt".into(), a: "S".into(), b: "n0".into(), e: "e0".into(), ty: "tA".into(), ty2: "tA".into(), p: "p0".into(), ..Default::default() },
    ];
    programs::install(&progs);
    let sizes: Vec<usize> = if thorough { vec![1, 700, 1021, 1022, 1023, 2048, 5000] } else { vec![1021, 1023] }; // +2 for the adversarial pair: 1023 | 1024 | 1025
    let mut violations: Vec<Value> = Vec::new();
    let mut runs = 0usize;
    let mut pairs_found = 0usize;
    for size in sizes {
        // pre-state: w0 with n0 and `size` nodes x<i>
        let mut store = warp_core::GraphStore::new(ids::warp("w0"));
        store.insert_node(ids::node("n0"), warp_core::NodeRecord { ty: ids::ty("tA") });
        let mut picks: Vec<(usize, String)> = Vec::new();
        let mut i = 0usize;
        while picks.len() < size {
            let lbl = format!("x{i}");
            store.insert_node(ids::node(&lbl), warp_core::NodeRecord { ty: ids::ty("tA") });
            // rule 1 / rule 2 touch only their scope; rule 3 conflicts with rule 1 on the same scope;
            // rule 4 (CopyAtt S -> n0) conflicts with every other rule-4 candidate (all write att(n0))
            let r = match rng.gen_range(0..10) { 0..=5 => 1, 6..=8 => 2, _ => 3 };
            picks.push((r, lbl.clone()));
            if r == 1 && rng.gen_bool(0.3) && picks.len() < size {
                picks.push((3, lbl.clone()));
            }
            i += 1;
        }
        // adversarial pair: the ONLY two rule-4 candidates of the tick conflict with each other (both write att(n0))
        // and their scope hashes share the first 4 bytes (found by label search), so a sort that looks at a key
        // prefix only would let arrival order decide which one is admitted
        if let Some((a, b)) = prefix_colliding_pair(4, 4) {
            for lbl in [a, b] {
                store.insert_node(ids::node(&lbl), warp_core::NodeRecord { ty: ids::ty("tA") });
                picks.push((4, lbl));
            }
            pairs_found += 1;
        }
        let mut state = WarpState::new();
        warp_core::verif::upsert_instance(&mut state, warp_core::WarpInstance { warp_id: ids::warp("w0"), root_node: ids::node("n0"), parent: None }, store);
        let mut reference: Option<Value> = None;
        for variant in 0..4usize {
            let mut order = picks.clone();
            match variant {
                0 => {}
                1 => order.reverse(),
                2 => order.shuffle(&mut rng),
                _ => {
                    order.shuffle(&mut rng);
                    let extra: Vec<_> = order.iter().take(order.len() / 3 + 1).cloned().collect();
                    order.extend(extra);
                    // and the prefix-sibling pair re-enqueued as A B A at the very end
                    let pair: Vec<_> = picks.iter().filter(|(r, _)| *r == 4).cloned().collect();
                    if pair.len() == 2 {
                        order.extend([pair[0].clone(), pair[1].clone(), pair[0].clone()]);
                    }
                }
            }
            for (kind, kname) in [(SchedulerKind::Radix, "radix"), (SchedulerKind::Legacy, "legacy")] {
                if !thorough && kname == "legacy" && variant > 1 {
                    continue;
                }
                let seq: Vec<CandJ> = order.iter().map(|(r, n)| CandJ { r: *r, w: "w0".into(), n: n.clone() }).collect();
                let t = match run_tick(&state, progs.len(), &seq, &Descent::new(), kind, if variant % 2 == 0 { 1 } else { 4 }) {
                    Ok(Ok(t)) => t,
                    other => {
                        violations.push(json!({"kind":"big_tick_failed","detail":format!("size {size} variant {variant} {kname}: {:?}", other.err())}));
                        continue;
                    }
                };
                runs += 1;
                match &reference {
                    None => {
                        // write the receipt as a trace
                        out.line(&json!({"event":"reset","size":size}));
                        for (ix, e) in t.receipt.entries().iter().enumerate() {
                            let rix = (1..=progs.len()).find(|r| programs::rule_id(*r) == e.rule_id).unwrap_or(0);
                            let fp = programs::declared_footprint(&progs[rix.max(1) - 1], e.scope.warp_id, &e.scope.local_id);
                            let name = |n: &warp_core::NodeKey| hex::encode(&n.local_id.0[..6]);
                            let aname = |a: &warp_core::AttachmentKey| match a.owner {
                                warp_core::AttachmentOwner::Node(n) => hex::encode(&n.local_id.0[..6]),
                                warp_core::AttachmentOwner::Edge(e) => format!("e{}", hex::encode(&e.local_id.0[..6])),
                            };
                            let mut k: Vec<u32> = e.scope_hash.iter().map(|b| *b as u32).collect();
                            k.extend(e.rule_id.iter().map(|b| *b as u32));
                            out.line(&json!({"event":"row","ix":ix,"k":k,
                                "nr":fp.n_read.iter().map(name).collect::<Vec<_>>(),"nw":fp.n_write.iter().map(name).collect::<Vec<_>>(),
                                "ar":fp.a_read.iter().map(aname).collect::<Vec<_>>(),"aw":fp.a_write.iter().map(aname).collect::<Vec<_>>(),
                                "acc":matches!(e.disposition, TickReceiptDisposition::Applied),
                                "blk":t.receipt.blocked_by(ix).to_vec()}));
                        }
                        out.line(&json!({"event":"end","rows":t.receipt.entries().len()}));
                        reference = Some(t.hashes);
                    }
                    Some(h) => {
                        if *h != t.hashes {
                            violations.push(json!({"kind":"big_outcome_depends_on_order_or_config",
                                "detail":format!("size {size} variant {variant} {kname}: {} vs {}", t.hashes, h)}));
                        }
                    }
                }
            }
        }
    }
    out.finish();
    println!("{}", json!({"runs":runs,"prefix_colliding_pairs_used":pairs_found,"violations":violations}));
    0
}

/// Searches node labels "y<i>" for two whose scope hashes under rule `r` (instance w0) share their first
/// `nbytes` bytes. 4 bytes need ~80k labels (birthday bound); gives up after 2M.
fn prefix_colliding_pair(r: usize, nbytes: usize) -> Option<(String, String)> {
    let mut seen: std::collections::HashMap<Vec<u8>, usize> = std::collections::HashMap::new();
    let rule = programs::rule_id(r);
    for i in 0..2_000_000usize {
        let lbl = format!("y{i}");
        let h = warp_core::scope_hash(&rule, &warp_core::NodeKey { warp_id: ids::warp("w0"), local_id: ids::node(&lbl) });
        if let Some(j) = seen.insert(h[..nbytes].to_vec(), i) {
            return Some((format!("y{j}"), lbl));
        }
    }
    None
}
