SPECIFICATION Spec
CONSTANTS
  ASlots = {"n1", "n2", "n3"}
  NSlots = {"n4"}
  Prog <- MC_Prog
  None = None
  AsBuiltClean = FALSE
  Scens <- MC_Scens_thorough
  OpsPPool = {1, 3}
  CVariants <- MC_CVariants
  PVariants <- MC_PVariants
  ResettlePols = {"refused", "plural"}
  ModelMutant = ""
  Export = TRUE
VIEW View
INVARIANTS ForkIsExactPrefix NoSharedHeads LaneIsolation PlanIsPure SettleAllOrNothing ImportedSlotsTakeStrandValues ParentChangedSlotsNeverOverwritten BlockingIsSticky ParentStaysReplayable ImportsReplayCleanly
  ShellCallsNeverTouchLanes RetainAddsNoLaneChange RetainedEntriesAreNoOps AuditReplayPure LaneCallsNeverTouchShells CollapseWithoutPolicyRefused CollapseRecordsExactlyTheSelection CollapseAllOrNothing JointAllOrNothing NoDoubleBinding RetainedShellsImmutable ReplayMatchesSettlement LineageSound StoreWellFormed RetainAgreesWithStrands Inv_NamesAreStore
  Inv_Export
PROPERTIES P_ShellCallsNeverTouchLanes P_AuditReplayPure P_AuditReplayDeterministic P_StoreAppendOnly P_TicksKeepShells P_LastCallLaws
CHECK_DEADLOCK FALSE
