"""C10 - what was acknowledged survives any crash; what was not is invisible.

MC : MC_C10.tla (Wal.tla): host calls (submit/tick transactions of 1..MaxFrames frames) in the
     exact order of the code (mutate memory, append frames unsynced, append commit + sync, persist
     ledger by atomic replace, then acknowledge/publish), store faults at every position with the
     host's repair-and-rollback, Crash keeping ANY byte prefix >= synced (positions before / inside
     / at end of each record) and any ledger version that can be on disk, Recover (scan, truncate,
     close epoch, new epoch, rebuild), <= MaxCycles crash-recover-continue cycles. Invariants:
     acked/published subset of recoverable at every moment, reopening never fails, transcribed
     scan = declarative committed prefix, idle host = Rebuild(committed prefix), no partial
     transaction visible, recovery idempotent, retry after recovery is a duplicate, exactly once.
     The as-built configurations (epoch start rule, non-atomic tail truncation) are run too: a
     TLC counterexample there is only a prediction - the harness decides on the real code.
TV : c10.rs runs seeded submit/stage/tick workloads on a REAL TrustedRuntimeHost with a filesystem
     WAL, then materialises crash states (segment cut at byte b x every ledger version that can
     coexist with b), opens a fresh host on each (enable_runtime_wal), runs recover_read_only
     twice, observes, retries (must be Duplicate) and continues (must end like the uninterrupted
     run); sampled crash states of the CONTINUED run give the second crash-recover-continue cycle.
     Store faults (FilesystemWalFaultPlan) are injected before every host call. WalTrace.tla
     (reusing Wal.tla) judges every probe/fault event with the oracle.
"""
import collections
import os
import resource
import subprocess
from lib import *

TRACE_JAVA = "-Xss1g -Dtlc2.tool.queue.IStateQueue=StateDeque"

PROBE_DEFAULTS = {"opened": False, "k": 0, "fp": "", "subs": [], "dec": [], "idem": False, "cb": False, "ro_pure": False,
                  "ro_k": -1, "reopen_same": True, "dup": False, "cont": False, "tmp": False, "level": 1}

# BAD reason -> (violation key, description). Reasons not listed are reported under their own name.
TOOL_REASONS = {"harness_impossible_crash_state", "writer_discipline_tool"}


def sanitize(events, path):
    """Writes the TLC-facing trace: fixed field sets per event kind, small ints, no long texts."""
    out = []
    index = []   # trace line (1-based) -> original event
    for e in events:
        k = e["event"]
        if k == "reset":
            o = {"event": k, "k0": e["k0"], "len0": e["len0"], "fp0": e["fp0"], "subs0": e["subs0"], "dec0": e["dec0"]}
        elif k == "rec":
            o = {"event": k, "kind": e["kind"], "tx": e["tx"], "idx": e["idx"], "lsn": e["lsn"], "first": e["first"],
                 "ep": e["ep"], "ext": e["ext"]}
        elif k == "opened":
            o = {"event": k}
        elif k == "ledger":
            o = {"event": k, "ver": e["ver"], "k": e["k"]}
        elif k == "call":
            o = {"event": k, "res": e["res"], "sub": e.get("sub", -1) + 0, "len": e["len"], "k": e["k"], "steps": e["steps"],
                 "fp": e.get("fp", ""), "vdec": e.get("vdec", [])}
            if o["sub"] < 0:
                o["sub"] = 1000000
        elif k == "probe":
            o = {"event": k, "b": e["b"], "lv": e["lv"] + 1}
            for f, d in PROBE_DEFAULTS.items():
                o[f] = e.get(f, d)
            if o["ro_k"] < 0:
                o["ro_k"] = 1000000
        elif k == "fault":
            o = {"event": k, "target": e["target"], "writes": e["writes"], "res": e["res"], "k_before": e["k_before"],
                 "k_after": e["k_after"], "mem_same": e["mem_same"], "crash_k": e["crash_k"] if e["crash_k"] >= 0 else 1000000,
                 "crash_fp": e["crash_fp"], "fp_before": e["fp_before"], "fp_after": e["fp_after"],
                 "retry": e["retry"].split(":")[0], "final_same": e["final_same"]}
        elif k == "manifest_fault":
            o = {"event": k, "res": e["res"], "manifest_written": e["manifest_written"], "history_same": e["history_same"]}
        else:
            continue
        out.append(o)
        index.append(e)
    write_ndjson(path, out)
    return index


def signature(e):
    """Stable classification of a failing probe by what the real code reported."""
    err = e.get("err", "") or ""
    if "LsnContinuityMismatch" in err:
        return "lsn_gap_after_epoch_without_commit"
    return None


def run_trace(ck, trace_raw, tag):
    events = read_ndjson(trace_raw)
    tpath = os.path.join(WORK, f"c10_{tag}.tlc.ndjson")
    index = sanitize(events, tpath)
    res = tlc("WalTrace", "WalTrace.cfg", workers=1, env={"TRACE": tpath}, java_opts=TRACE_JAVA, timeout=7200,
              tags=(), out_name=f"c10_trace_{tag}")
    ck.add_tlc(res)
    txt = open(res.stdout_path).read()
    if res.postcondition_failed or res.violation or "REJECTED_AT" in txt:
        m = re.search(r'"REJECTED_AT", (\d+)', txt)
        raise ToolError(f"WalTrace could not consume the trace (line {m.group(1) if m else '?'}): {res.error_text[:800]}")
    bad = []
    for m in re.finditer(r'<<\s*"BAD",\s*(\d+),\s*\{(.*?)\}\s*>>', txt, re.S):
        line = int(m.group(1))
        reasons = sorted(x.strip().strip('"') for x in m.group(2).split(",") if x.strip())
        bad.append((line, reasons, index[line - 1]))
    return events, index, bad


def report_bad(ck, bad, keep_trace):
    groups = collections.OrderedDict()
    for line, reasons, e in bad:
        if set(reasons) & TOOL_REASONS:
            raise ToolError(f"trace line {line}: {reasons} {json.dumps(e)[:400]}")
        if e["event"] == "probe":
            sig = signature(e)
            first = reasons[0] if reasons else "?"
            key = f"crash_probe:{sig}" if sig else f"crash_probe:{'+'.join(reasons)}"
        elif e["event"] == "fault":
            key = f"store_fault:{e['target']}:{e['op']['op']}:{'+'.join(reasons)}"
        else:
            key = f"{e['event']}:{'+'.join(reasons)}"
        groups.setdefault(key, []).append((line, reasons, e))
    for key, items in groups.items():
        line, reasons, e = items[0]
        desc = (f"{len(items)} event(s); first: trace line {line}, reasons {reasons}, "
                f"event {json.dumps({k: v for k, v in e.items() if k != 'err'})[:500]} err={str(e.get('err', ''))[:600]}")
        ck.violation(key, desc, {"tier": ck.tier, "reopen": bool(e.get("reopened")), "tmp": bool(e.get("tmp")),
                                 "w": e.get("w"), "b": e.get("b"), "lv": e.get("lv"), "level": e.get("level"),
                                 "parent_b": e.get("parent_b"), "fault": e if e["event"] == "fault" else None,
                                 "reasons": reasons, "count": len(items), "trace": keep_trace})
    return groups


def lsn_gap_scenario(ck, binp):
    """Fixed scenario predicted by MC_C10_asbuilt_epochgap: commit, reopen without writing, reopen, commit."""
    outp = os.path.join(WORK, "c10_gap.ndjson")
    harness(binp, ["c10-gap", outp, "1"], timeout=600)
    e = read_ndjson(outp)[0]
    ck.cov["evaluations"] += 1
    broken = "ERR" in e["final"] or any("ERR" in t for t in e["trace"])
    return broken, e


def rewrite_kill_scenario(ck, binp):
    """Fixed scenario predicted by MC_C10_asbuilt_rewrite: the process is killed (SIGXFSZ through
    RLIMIT_FSIZE, i.e. a real process death at a chosen file size) while recovery rewrites the
    segment to drop an uncommitted tail; then a fresh host is opened."""
    d = os.path.join(WORK, "agent_wal_c10_kill") if False else os.path.join(VERIF, "work", "agent_wal", "scratch", f"c10kill-{os.getpid()}")
    outp = os.path.join(WORK, "c10_kill.ndjson")
    results = []
    try:
        harness(binp, ["c10-mkcrash", outp, d], timeout=600)
        info = read_ndjson(outp)[0]
        seg = os.path.join(d, "segments", "segment-00000000000000000001.ecwal")
        size0 = os.path.getsize(seg)
        for limit in info["limits"]:
            dd = d + f".l{limit}"
            shutil.rmtree(dd, ignore_errors=True)
            shutil.copytree(d, dd)

            def lim(limit=limit):
                resource.setrlimit(resource.RLIMIT_FSIZE, (limit, limit))
            p = subprocess.run([binp, "c10-reopen", os.path.join(WORK, "c10_kill_child.ndjson"), dd], preexec_fn=lim,
                               stdout=subprocess.PIPE, stderr=subprocess.PIPE, text=True, timeout=300)
            killed = p.returncode < 0
            size_mid = os.path.getsize(os.path.join(dd, "segments", "segment-00000000000000000001.ecwal")) if os.path.exists(os.path.join(dd, "segments", "segment-00000000000000000001.ecwal")) else -1
            harness(binp, ["c10-reopen", os.path.join(WORK, "c10_kill_after.ndjson"), dd], timeout=300)
            after = read_ndjson(os.path.join(WORK, "c10_kill_after.ndjson"))[0]
            results.append({"limit": limit, "child_rc": p.returncode, "killed": killed, "segment_bytes_before": size0,
                            "segment_bytes_at_kill": size_mid, "acked": info["acked"], "after": after})
            shutil.rmtree(dd, ignore_errors=True)
            ck.cov["evaluations"] += 1
    finally:
        shutil.rmtree(d, ignore_errors=True)
    return results


def run(tier, replay=None):
    ck = Check("C10", tier)
    binp = build_harness()
    os.makedirs(os.path.join(VERIF, "work", "agent_wal", "scratch"), exist_ok=True)
    asbuilt = {}
    if not replay:
        # ---- MC ------------------------------------------------------------------------
        main_cfg = "MC_C10_quick.cfg" if tier == "quick" else "MC_C10_thorough.cfg"
        res = tlc("MC_C10", main_cfg, workers=6, timeout=7200, coverage=(tier == "thorough"), tags=())
        ck.add_tlc(res)
        if res.violation:
            ck.violation(f"spec:{main_cfg}:{res.violation}", "TLC invariant violated on the model:\n" + res.error_text[:3000],
                         {"cfg": main_cfg, "invariant": res.violation, "trace": res.error_text[:20000]})
        if res.distinct < 1000:
            raise ToolError(f"{main_cfg}: state space suspiciously small ({res.distinct})")
        if tier == "thorough":
            for act in ("Crash", "StoreFault", "OpenRebuild", "Ack", "Publish", "PersistLedgerEnd", "RetryDuplicate"):
                if not res.coverage.get(act):
                    raise ToolError(f"{main_cfg}: action {act} never taken (vacuous)")
        # binding of the invariants: each mutant of the model must be rejected
        for cfg in ["MC_C10_mut_ack_before_sync.cfg"] + (
                ["MC_C10_mut_no_rollback.cfg", "MC_C10_mut_ack_before_commit.cfg", "MC_C10_mut_no_truncate.cfg"] if tier == "thorough" else []):
            r = tlc("MC_C10", cfg, workers=2, timeout=1800, tags=())
            ck.add_tlc(r)
            if not r.violation:
                raise ToolError(f"{cfg}: the mutated model was not rejected - invariants are vacuous")
        # as-built variants: predictions to be decided on the real code
        for cfg in ["MC_C10_asbuilt_epochgap.cfg", "MC_C10_asbuilt_rewrite.cfg"]:
            r = tlc("MC_C10", cfg, workers=4, timeout=3600, tags=())
            ck.add_tlc(r)
            asbuilt[cfg] = r.violation
    # ---- TV (physical) ----------------------------------------------------------------------------
    trace = os.path.join(WORK, "c10_trace.ndjson")
    args = ["c10", trace, str(ck.seed), tier]
    if replay:
        rp = json.load(open(replay))["case"]
        if rp.get("fixed"):
            args = None
        else:
            rfile = os.path.join(WORK, "c10_replay_in.json")
            spec = {"w": rp["w"], "reopen": bool(rp.get("reopen")), "tmp": bool(rp.get("tmp"))}
            args[3] = rp.get("tier", tier)
            if rp.get("fault"):
                spec["fault"] = 1
            else:
                spec["b"] = rp["b"]
                if rp.get("parent_b") is not None:
                    spec["parent_b"] = rp["parent_b"]
            json.dump(spec, open(rfile, "w"))
            args.append(rfile)
    if args:
        summ = json.loads(harness(binp, args, timeout=6 * 3600).strip().splitlines()[-1])
        events, index, bad = run_trace(ck, trace, "main")
        keep = os.path.join(REPLAYS, f"C10-{ck.seed}-trace.ndjson")
        if bad:
            shutil.copy(trace, keep)
        report_bad(ck, bad, keep if bad else None)
        probes = [e for e in events if e["event"] == "probe"]
        ck.cov["traces_validated_against_impl"] = summ["runs"]
        ck.cov["evaluations"] += len(probes) + summ["fault_runs"]
        ck.cov["crash_probes"] = len(probes)
        ck.cov["crash_probes_level2"] = summ["level2_probes"]
        ck.cov["fault_runs"] = summ["fault_runs"]
        ck.cov["segment_bytes"] = summ["segment_bytes"]
        ck.cov["distinct_nontrivial"] = summ["torn_probes"]
        if not replay and (len(probes) < 50 or summ["torn_probes"] == 0 or summ["fault_runs"] == 0):
            raise ToolError("physical leg is vacuous")
        for e in events:
            if e["event"] == "workload":
                ck.sample({"workload": e})
        good = [e for e in probes if e.get("opened") and e.get("cont")]
        if good:
            ck.sample({"probe": {k: v for k, v in good[len(good) // 2].items() if k != "err"}})
    # ---- fixed scenarios predicted by the as-built model ----------------------------------------------
    if not replay or json.load(open(replay))["case"].get("fixed") == "lsn_gap":
        broken, e = lsn_gap_scenario(ck, binp)
        pred = asbuilt.get("MC_C10_asbuilt_epochgap.cfg")
        if broken:
            ck.violation("crash_probe:lsn_gap_after_epoch_without_commit",
                         "a host incarnation that commits nothing makes its successor start at an LSN gap; the next "
                         "acknowledged transaction makes every later recovery fail with LsnContinuityMismatch: " + json.dumps(e)[:1500],
                         {"fixed": "lsn_gap", "scenario": e, "model_prediction": pred})
        elif pred:
            ck.notes.append({"drift": "MC_C10_asbuilt_epochgap predicts a failure the real code does not show", "scenario": e})
    if not replay or json.load(open(replay))["case"].get("fixed") == "rewrite_kill":
        results = rewrite_kill_scenario(ck, binp)
        pred = asbuilt.get("MC_C10_asbuilt_rewrite.cfg")
        lost = [r for r in results if r["killed"] and not set(r["acked"]) <= set(r["after"].get("subs", []))]
        ck.cov["rewrite_kill_runs"] = len(results)
        if lost:
            ck.violation("crash_during_tail_truncation_rewrite",
                         "process death while recovery rewrites the segment to drop an uncommitted tail loses "
                         "acknowledged, previously durable submissions: " + json.dumps(lost[0])[:1500],
                         {"fixed": "rewrite_kill", "results": lost[:3], "model_prediction": pred})
        elif pred:
            ck.notes.append({"drift": "MC_C10_asbuilt_rewrite predicts a loss the real code does not show", "results": results[:3]})
    ck.cov["rule"] = ("crash states = (segment byte length b, ledger version coexisting with b) of seeded workloads, each opened by a fresh real host; "
                      "quick: every record boundary and header/digest edge +-1 byte plus seeded offsets, thorough: every byte length; "
                      "non-trivial = b cuts a record (torn write); level-2 probes crash the continued run again; "
                      "fault runs = (host call index x fault target)")
    ck.cov["exhaustive"] = (tier == "thorough" and replay is None)
    ck.assumptions += [
        "fsync is effective where the code calls sync_all; the physical leg observes written bytes (process-kill model), the power-loss model (unsynced bytes may vanish) is explored on the spec only",
        "ledger versions are captured between host calls; the two intermediate versions written inside one open (epoch closed / successor active) are covered by the model only",
        "abstract record extent 2 in MC (before / inside / at end); real extents in the trace leg",
        "staging (ticketed ingress) is not WAL-recorded: the continued run re-stages what the uninterrupted run had staged",
        "FilesystemWalFaultPlan::fail_next reaches the first frame append / the commit flush / the post-sync point of the NEXT transaction only; faults at later frame positions are covered by MC_C10 (StoreFault at every position)",
        "trusted base: TLC, the harness' independent parser of the record framing, BLAKE3",
    ]
    return ck.finish()
