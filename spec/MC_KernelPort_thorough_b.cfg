SPECIFICATION MC_Spec
CONSTANTS
  Intents <- MC_Intents
  BehOf <- MC_BehOf
  BadInputs = {"malformed", "control", "import_malformed"}
  DupMode = "code"
  LimitMode = "code"
  RunnableMode = "code"
  None = None
  IntentSet = {"a1", "a2", "n1", "p1", "b1"}
  BadSet = {"malformed", "control", "import_malformed"}
  LimitSet = {0, 1, 2}
  NoLimit = TRUE
  HeadSet = {"default", "missing"}
  EligSet = {"dormant", "admitted"}
  ReadSet = {"status", "head"}
  UseStop = TRUE
  Mode = "graph"
  MaxRuns = 2
  MaxCalls = 0
  Export = TRUE
VIEW MC_View
INVARIANTS TypeOK TicksAdvanceOnlyByCycles HistoryAppendOnly AtMostOnce LedgerIsLog DuplicateChangesNothing AcceptedIsNew RunCommitsPendingSet RunIdsFresh StartCompletionConsistent StatusFresh RefusedChangesNothing FailedRunCommitsNothing DormantNeverCommitted ReadChangesNothing ResponseCarriesStatus
PROPERTIES Laws
CHECK_DEADLOCK FALSE
