//! C18: materialized output is independent of emission order.
//!
//! `c18 [replay] <cases.ndjson> <results.ndjson>`
//!     Each input line is a behaviour exported by TLC from MC_C18.tla: channel policies, the
//!     emission sequence in the order the model took, and the model's predicted finalize
//!     outcome (bytes per channel in channel order, conflicts, accepted/rejected flag per emit).
//!     The real `MaterializationBus` is driven through the same steps.
//!       mode "perm": the sequence is replayed as given; the real outcome, the emissions digest
//!           and the frame / v2 packet encodings are reported; the runner groups the behaviours
//!           by (policies, emission set) and decides order independence on the real outcomes.
//!       mode "set": the model visited the set once; ALL permutations of the sequence are
//!           replayed here, each compared with the prediction and with the first one.
//!     In both modes the commutative-reducer channels are additionally re-keyed (payloads moved
//!     to other keys of the same channel) and must keep their bytes.
//!
//! `c18 trace <trace.ndjson> <results.ndjson>`
//!     Seeded (VERIF_SEED) random emission sets of 8..40 emissions over up to 12 channels, each
//!     emitted in several shuffled orders; every call and its real result is logged as an ndjson
//!     trace for BusTrace.tla, and the digests/encodings per run go to the results file.

use std::collections::BTreeMap;

use rand::rngs::StdRng;
use rand::seq::SliceRandom;
use rand::{Rng, SeedableRng};
use serde::Deserialize;
use serde_json::{json, Value};
use warp_core::materialization::{
    encode_frames, encode_v2_packet, compute_value_hash, make_channel_id, ChannelId, ChannelPolicy,
    EmissionPort, EmitKey, MaterializationBus, MaterializationFrame, ReduceOp, ScopedEmitter, V2Entry,
    V2PacketHeader,
};
use warp_core::{compute_emissions_digest, WarpId};

use crate::util;

type Hash = [u8; 32];

const NCH: usize = 16;
/// model rule / subkey index -> real u32 (monotone; 256 < 0x0100_0001 separates numeric order from
/// little-endian byte order)
const U32S: [u32; 5] = [0, 1, 256, 0x0100_0001, u32::MAX];

struct Tables {
    chans: Vec<ChannelId>,
    inv: BTreeMap<ChannelId, usize>,
    scopes: Vec<Hash>,
}

impl Tables {
    fn new() -> Self {
        // model channel i = i-th smallest real id: numeric order in the model = byte order here
        // Ids are opaque 32-byte values (`TypeId(pub [u8; 32])`): besides label-derived ids the table holds ids that
        // agree on long prefixes (31, 16 and 15 leading bytes), so an order decided on a prefix only is visible.
        // (all-zero ids with one late non-zero byte are the smallest ids, so the model's channels 0, 1, 2 agree on their
        // first 16 bytes whatever the label-derived ids are)
        let z = |pos: usize, v: u8| {
            let mut b = [0u8; 32];
            b[pos] = v;
            warp_core::TypeId(b)
        };
        let mut chans: Vec<ChannelId> = vec![z(31, 1), z(31, 2), z(16, 1), z(16, 2), z(15, 1), z(15, 2), z(0, 1)];
        while chans.len() < NCH {
            chans.push(make_channel_id(&format!("c18:ch:{}", chans.len())));
        }
        chans.sort();
        chans.dedup();
        assert_eq!(chans.len(), NCH, "channel id table has duplicates");
        let inv = chans.iter().enumerate().map(|(i, c)| (*c, i)).collect();
        // model scope index -> hash, increasing in byte order, decided at different byte positions
        let mut s1 = [0u8; 32];
        s1[31] = 1;
        let mut s2 = [0u8; 32];
        s2[16] = 1;
        let mut s3 = [0u8; 32];
        s3[0] = 1;
        let scopes = vec![[0u8; 32], s1, s2, s3, [0xffu8; 32]];
        Self { chans, inv, scopes }
    }
    fn key(&self, k: &[u32]) -> Result<EmitKey, String> {
        if k.len() != 3 {
            return Err(format!("model key must be <<scope, rule, subkey>>, got {k:?}"));
        }
        let s = self.scopes.get(k[0] as usize).ok_or("scope index out of table")?;
        let r = U32S.get(k[1] as usize).ok_or("rule index out of table")?;
        let u = U32S.get(k[2] as usize).ok_or("subkey index out of table")?;
        Ok(EmitKey::with_subkey(*s, *r, *u))
    }
}

fn policy(name: &str) -> Result<Option<ChannelPolicy>, String> {
    Ok(Some(match name {
        "Unreg" => return Ok(None),
        "Log" => ChannelPolicy::Log,
        "StrictSingle" => ChannelPolicy::StrictSingle,
        "Sum" => ChannelPolicy::Reduce(ReduceOp::Sum),
        "Max" => ChannelPolicy::Reduce(ReduceOp::Max),
        "Min" => ChannelPolicy::Reduce(ReduceOp::Min),
        "BitOr" => ChannelPolicy::Reduce(ReduceOp::BitOr),
        "BitAnd" => ChannelPolicy::Reduce(ReduceOp::BitAnd),
        "First" => ChannelPolicy::Reduce(ReduceOp::First),
        "Last" => ChannelPolicy::Reduce(ReduceOp::Last),
        "Concat" => ChannelPolicy::Reduce(ReduceOp::Concat),
        other => return Err(format!("unknown policy {other}")),
    }))
}

/// is_commutative() of the REAL code decides which channels the re-keying relation applies to
fn is_commutative(p: Option<ChannelPolicy>) -> bool {
    matches!(p, Some(ChannelPolicy::Reduce(op)) if op.is_commutative())
}

#[derive(Clone)]
struct Emission {
    ch: usize,
    key: EmitKey,
    data: Vec<u8>,
}

#[derive(Clone, PartialEq, Eq, Debug)]
struct Outcome {
    channels: Vec<(usize, Vec<u8>)>,
    errors: Vec<(usize, usize, String)>,
    oks: Vec<bool>,
    digest: Hash,
    frames: Hash,
    v2: Hash,
    /// the emissions digest of the same finalized channels presented reversed / rotated equals `digest`
    present_ok: bool,
}

impl Outcome {
    fn json(&self) -> Value {
        json!({
            "channels": self.channels.iter().map(|(c, d)| json!([c, d])).collect::<Vec<_>>(),
            "errors": self.errors.iter().map(|(c, n, k)| json!([c, n, k])).collect::<Vec<_>>(),
            "ok": self.oks,
            "digest": hex::encode(self.digest),
            "frames": hex::encode(self.frames),
            "v2": hex::encode(self.v2),
            "present_ok": self.present_ok,
        })
    }
    /// everything except the per-emit flags (those follow arrival order by definition)
    fn same_output(&self, o: &Outcome) -> bool {
        self.channels == o.channels && self.errors == o.errors && self.digest == o.digest && self.frames == o.frames && self.v2 == o.v2
    }
}

fn v2_header() -> V2PacketHeader {
    V2PacketHeader {
        session_id: [1u8; 32],
        cursor_id: [2u8; 32],
        worldline_id: [3u8; 32],
        warp_id: WarpId([4u8; 32]),
        tick: 7,
        commit_hash: [5u8; 32],
    }
}

/// One tick of the real bus: register, emit in the given order, finalize, digest, encodings.
fn run_bus(t: &Tables, pol: &[Option<ChannelPolicy>], seq: &[&Emission], scoped: bool, notes: &mut Vec<String>) -> Outcome {
    let mut bus = MaterializationBus::new();
    for (i, p) in pol.iter().enumerate() {
        if let Some(p) = p {
            bus.register_channel(t.chans[i], *p);
        }
    }
    let mut oks = Vec::with_capacity(seq.len());
    for e in seq {
        let ch = t.chans[e.ch];
        let r = if scoped {
            let em = ScopedEmitter::new(&bus, e.key.scope_hash, e.key.rule_id);
            if e.key.subkey == 0 {
                em.emit(ch, e.data.clone())
            } else {
                em.emit_with_subkey(ch, e.key.subkey, e.data.clone())
            }
        } else {
            bus.emit(ch, e.key, e.data.clone())
        };
        match r {
            Ok(()) => oks.push(true),
            Err(d) => {
                if (d.channel != ch || d.key != e.key) && notes.len() < 4 {
                    notes.push("DuplicateEmission names another (channel, key) than the rejected one".into());
                }
                oks.push(false);
            }
        }
    }
    let report = bus.finalize();
    if !bus.is_empty() && notes.len() < 4 {
        notes.push("bus not empty after finalize".into());
    }
    let again = bus.finalize();
    if (!again.channels.is_empty() || !again.errors.is_empty()) && notes.len() < 4 {
        notes.push("second finalize is not empty".into());
    }
    let digest = compute_emissions_digest(&report.channels);
    // the digest is documented as canonical in the channels (sorted by id inside): presentation order must not matter
    let mut present_ok = true;
    if report.channels.len() >= 2 {
        let mut rev = report.channels.clone();
        rev.reverse();
        let mut rot = report.channels.clone();
        rot.rotate_left(1);
        present_ok = compute_emissions_digest(&rev) == digest && compute_emissions_digest(&rot) == digest;
    }
    let frames: Vec<MaterializationFrame> =
        report.channels.iter().map(|c| MaterializationFrame::new(c.channel, c.data.clone())).collect();
    let frames_h: Hash = blake3::hash(&encode_frames(&frames)).into();
    let entries: Vec<V2Entry> = report
        .channels
        .iter()
        .map(|c| V2Entry { channel: c.channel, value_hash: compute_value_hash(&c.data), value: c.data.clone() })
        .collect();
    let v2: Hash = match encode_v2_packet(&v2_header(), &entries) {
        Ok(b) => blake3::hash(&b).into(),
        Err(e) => {
            notes.push(format!("encode_v2_packet failed: {e:?}"));
            [0u8; 32]
        }
    };
    let ix = |c: &ChannelId| t.inv.get(c).copied().unwrap_or(usize::MAX);
    Outcome {
        channels: report.channels.iter().map(|c| (ix(&c.channel), c.data.clone())).collect(),
        errors: report.errors.iter().map(|c| (ix(&c.channel), c.emission_count, format!("{:?}", c.kind))).collect(),
        oks,
        digest,
        frames: frames_h,
        v2,
        present_ok,
    }
}

fn has_repeat(seq: &[Emission]) -> bool {
    for i in 0..seq.len() {
        for j in 0..i {
            if seq[i].ch == seq[j].ch && seq[i].key == seq[j].key {
                return true;
            }
        }
    }
    false
}

/// Re-keying: on every channel whose REAL policy is a commutative reducer, move the payloads to
/// other keys of the same channel (rotation, reversal); the channel's bytes must not change.
fn rekey_check(t: &Tables, pol: &[Option<ChannelPolicy>], seq: &[Emission], base: &Outcome) -> Option<Value> {
    if has_repeat(seq) {
        return None;
    }
    for c in 0..pol.len() {
        if !is_commutative(pol[c]) {
            continue;
        }
        let idx: Vec<usize> = (0..seq.len()).filter(|&i| seq[i].ch == c).collect();
        if idx.len() < 2 {
            continue;
        }
        for variant in 0..2 {
            if variant == 1 && idx.len() < 3 {
                continue;
            }
            let mut v: Vec<Emission> = seq.to_vec();
            for (n, &i) in idx.iter().enumerate() {
                let src = if variant == 0 { idx[(n + 1) % idx.len()] } else { idx[idx.len() - 1 - n] };
                v[i].data = seq[src].data.clone();
            }
            let refs: Vec<&Emission> = v.iter().collect();
            let mut notes = Vec::new();
            let o = run_bus(t, pol, &refs, false, &mut notes);
            let a = base.channels.iter().find(|(ch, _)| *ch == c).map(|x| &x.1);
            let b = o.channels.iter().find(|(ch, _)| *ch == c).map(|x| &x.1);
            if a != b {
                return Some(json!({"channel": c, "variant": variant, "before": a, "after": b,
                    "rekeyed": v.iter().map(|e| json!([e.ch, key_json(&e.key), e.data])).collect::<Vec<_>>()}));
            }
        }
    }
    None
}

fn key_json(k: &EmitKey) -> Value {
    json!({"scope": hex::encode(k.scope_hash), "rule": k.rule_id, "subkey": k.subkey})
}

// ------------------------------------------------------------------------------------------ replay

#[derive(Deserialize)]
struct EmitJ {
    ch: usize,
    key: Vec<u32>,
    data: Vec<u8>,
    ok: bool,
}
#[derive(Deserialize)]
struct ChanJ {
    ch: usize,
    data: Vec<u8>,
}
#[derive(Deserialize)]
struct ErrJ {
    ch: usize,
    count: usize,
    kind: String,
}
#[derive(Deserialize)]
struct Case {
    mode: String,
    pol: Vec<String>,
    emits: Vec<EmitJ>,
    channels: Vec<ChanJ>,
    errors: Vec<ErrJ>,
}

/// Differences between the real outcome and the model's prediction (empty = conforms).
fn diff_pred(c: &Case, o: &Outcome, flags: Option<&[bool]>) -> Vec<String> {
    let mut d = Vec::new();
    let pc: Vec<(usize, Vec<u8>)> = c.channels.iter().map(|x| (x.ch, x.data.clone())).collect();
    if pc != o.channels {
        d.push(format!("channels: model {:?} real {:?}", pc, o.channels));
    }
    let pe: Vec<(usize, usize, String)> = c.errors.iter().map(|x| (x.ch, x.count, x.kind.clone())).collect();
    if pe != o.errors {
        d.push(format!("errors: model {:?} real {:?}", pe, o.errors));
    }
    if let Some(f) = flags {
        if f != o.oks.as_slice() {
            d.push(format!("accepted flags: model {:?} real {:?}", f, o.oks));
        }
    }
    d
}

fn next_permutation(a: &mut [usize]) -> bool {
    let n = a.len();
    if n < 2 {
        return false;
    }
    let mut i = n - 1;
    while i > 0 && a[i - 1] >= a[i] {
        i -= 1;
    }
    if i == 0 {
        return false;
    }
    let mut j = n - 1;
    while a[j] <= a[i - 1] {
        j -= 1;
    }
    a.swap(i - 1, j);
    a[i..].reverse();
    true
}

fn replay_case(t: &Tables, line: usize, v: Value) -> Value {
    let c: Case = match serde_json::from_value(v) {
        Ok(c) => c,
        Err(e) => return json!({"i": line, "verdict": "tool_error", "detail": format!("bad case: {e}")}),
    };
    let mut pol = Vec::new();
    for p in &c.pol {
        match policy(p) {
            Ok(p) => pol.push(p),
            Err(e) => return json!({"i": line, "verdict": "tool_error", "detail": e}),
        }
    }
    let mut seq = Vec::new();
    for e in &c.emits {
        match t.key(&e.key) {
            Ok(k) if e.ch < pol.len() => seq.push(Emission { ch: e.ch, key: k, data: e.data.clone() }),
            Ok(_) => return json!({"i": line, "verdict": "tool_error", "detail": "channel index without policy entry"}),
            Err(e) => return json!({"i": line, "verdict": "tool_error", "detail": e}),
        }
    }
    let flags: Vec<bool> = c.emits.iter().map(|e| e.ok).collect();
    let r = util::catch(|| {
        let mut notes = Vec::new();
        let refs: Vec<&Emission> = seq.iter().collect();
        let base = run_bus(t, &pol, &refs, true, &mut notes);
        let diff = diff_pred(&c, &base, Some(&flags));
        let rekey = rekey_check(t, &pol, &seq, &base);
        let mut out = json!({"i": line, "mode": c.mode, "real": base.json(), "diff": diff, "notes": notes});
        if let Some(rk) = rekey {
            out["rekey_violation"] = rk;
        }
        if c.mode == "set" {
            if seq.len() > 8 {
                out["verdict"] = json!("tool_error");
                out["detail"] = json!("set mode limited to 8 emissions");
                return out;
            }
            // every permutation of the set against the real bus
            let mut ix: Vec<usize> = (0..seq.len()).collect();
            let mut n = 0u64;
            let mut n_diff = 0u64;
            let mut n_mis = 0u64;
            loop {
                let refs: Vec<&Emission> = ix.iter().map(|&i| &seq[i]).collect();
                let mut nn = Vec::new();
                let o = run_bus(t, &pol, &refs, n % 2 == 0, &mut nn);
                n += 1;
                if !o.same_output(&base) {
                    if n_diff == 0 {
                        out["first_order_dependence"] = json!({"order": ix, "real": o.json()});
                    }
                    n_diff += 1;
                }
                let all_ok = o.oks.iter().all(|b| *b);
                let d = diff_pred(&c, &o, None);
                if !d.is_empty() || !all_ok {
                    if n_mis == 0 {
                        out["first_mismatch"] = json!({"order": ix, "diff": d, "ok": o.oks});
                    }
                    n_mis += 1;
                }
                if !next_permutation(&mut ix) {
                    break;
                }
            }
            out["perms"] = json!(n);
            out["perms_differing"] = json!(n_diff);
            out["perms_mismatching_model"] = json!(n_mis);
        }
        out["verdict"] = json!("done");
        out
    });
    match r {
        Ok(v) => v,
        Err(p) => json!({"i": line, "verdict": "panic", "detail": p}),
    }
}

fn replay(inp: &str, outp: &str) -> i32 {
    let t = Tables::new();
    let mut out = util::Out::create(outp);
    let threads: usize = std::env::var("C18_THREADS").ok().and_then(|s| s.parse().ok()).unwrap_or(4).max(1);
    let mut batch: Vec<(usize, Value)> = Vec::new();
    let flush = |batch: &mut Vec<(usize, Value)>, out: &mut util::Out| {
        let items: Vec<(usize, Value)> = std::mem::take(batch);
        let n = items.len();
        if n == 0 {
            return;
        }
        let chunk = (n + threads - 1) / threads;
        let mut slots: Vec<Vec<(usize, Value)>> = Vec::new();
        let mut it = items.into_iter();
        loop {
            let c: Vec<(usize, Value)> = it.by_ref().take(chunk).collect();
            if c.is_empty() {
                break;
            }
            slots.push(c);
        }
        let tref = &t;
        let results: Vec<Vec<Value>> = std::thread::scope(|s| {
            let hs: Vec<_> = slots
                .into_iter()
                .map(|c| s.spawn(move || c.into_iter().map(|(i, v)| replay_case(tref, i, v)).collect::<Vec<Value>>()))
                .collect();
            hs.into_iter().map(|h| h.join().unwrap_or_default()).collect()
        });
        for rs in results {
            for r in rs {
                out.line(&r);
            }
        }
    };
    for (i, v) in util::read_lines(inp) {
        batch.push((i, v));
        if batch.len() >= 8192 {
            flush(&mut batch, &mut out);
        }
    }
    flush(&mut batch, &mut out);
    out.finish();
    0
}

// ------------------------------------------------------------------------------------------- trace

/// 32 scope bytes (as eleven 24-bit big-endian chunks of the zero-prefixed hash) followed by
/// rule and subkey as 16-bit halves: lexicographic order of this sequence = Ord of EmitKey.
fn key_chunks(k: &EmitKey) -> Vec<u32> {
    let mut b = vec![0u8];
    b.extend_from_slice(&k.scope_hash);
    let mut v: Vec<u32> = b.chunks(3).map(|c| ((c[0] as u32) << 16) | ((c[1] as u32) << 8) | c[2] as u32).collect();
    v.push(k.rule_id >> 16);
    v.push(k.rule_id & 0xffff);
    v.push(k.subkey >> 16);
    v.push(k.subkey & 0xffff);
    v
}

const POLS: [&str; 11] = ["Unreg", "Log", "StrictSingle", "Sum", "Max", "Min", "BitOr", "BitAnd", "First", "Last", "Concat"];

fn gen_u32(rng: &mut StdRng) -> u32 {
    const EDGE: [u32; 10] = [0, 1, 2, 255, 256, 65535, 65536, 0x7fff_ffff, 0x8000_0000, u32::MAX];
    if rng.gen_bool(0.7) {
        EDGE[rng.gen_range(0..EDGE.len())]
    } else {
        rng.gen()
    }
}

fn gen_payload(rng: &mut StdRng) -> Vec<u8> {
    const LENS: [usize; 9] = [0, 1, 1, 2, 3, 7, 8, 9, 12];
    const BYTES: [u8; 6] = [0, 1, 127, 128, 254, 255];
    let n = LENS[rng.gen_range(0..LENS.len())];
    (0..n).map(|_| if rng.gen_bool(0.6) { BYTES[rng.gen_range(0..BYTES.len())] } else { rng.gen() }).collect()
}

fn trace(trace_path: &str, res_path: &str) -> i32 {
    let seed: u64 = std::env::var("VERIF_SEED").ok().and_then(|s| s.parse().ok()).unwrap_or(1);
    let n_sets: usize = std::env::var("C18_TV_SETS").ok().and_then(|s| s.parse().ok()).unwrap_or(40);
    let n_shuffles: usize = std::env::var("C18_TV_SHUFFLES").ok().and_then(|s| s.parse().ok()).unwrap_or(4);
    let max_n: usize = std::env::var("C18_TV_MAXN").ok().and_then(|s| s.parse().ok()).unwrap_or(40);
    let mut rng = StdRng::seed_from_u64(seed ^ 0xC18);
    let t = Tables::new();
    let mut tr = util::Out::create(trace_path);
    let mut res = util::Out::create(res_path);
    let mut line = 0usize; // trace lines written so far
    for set in 0..n_sets {
        // channels, policies
        let nch = rng.gen_range(1..=12usize);
        let mut chs: Vec<usize> = (0..NCH).collect();
        chs.shuffle(&mut rng);
        chs.truncate(nch);
        chs.sort();
        let mut pol: Vec<Option<ChannelPolicy>> = vec![None; NCH];
        let mut pol_names: Vec<&str> = vec!["Unreg"; NCH];
        for &c in &chs {
            let name = POLS[rng.gen_range(0..POLS.len())];
            pol_names[c] = name;
            pol[c] = policy(name).unwrap_or(None);
        }
        // scope pool: few hashes, some sharing a long prefix
        let mut scopes: Vec<Hash> = Vec::new();
        for i in 0..rng.gen_range(2..=5usize) {
            let mut h = [0u8; 32];
            match i % 3 {
                0 => rng.fill(&mut h),
                1 => {
                    h = [0xabu8; 32];
                    h[31] = rng.gen();
                }
                _ => {
                    h[0] = rng.gen_range(0..2);
                    h[15] = rng.gen();
                }
            }
            scopes.push(h);
        }
        let n = rng.gen_range(8..=max_n.max(8));
        let mut seq: Vec<Emission> = Vec::new();
        let mut guard = 0;
        while seq.len() < n && guard < 10_000 {
            guard += 1;
            // skewed channel choice: the first channel of the set gets about half of the emissions
            let ch = if rng.gen_bool(0.5) { chs[0] } else { chs[rng.gen_range(0..chs.len())] };
            let key = EmitKey::with_subkey(scopes[rng.gen_range(0..scopes.len())], gen_u32(&mut rng), gen_u32(&mut rng));
            if seq.iter().any(|e| e.ch == ch && e.key == key) {
                continue;
            }
            seq.push(Emission { ch, key, data: gen_payload(&mut rng) });
        }
        // some sets repeat a (channel, key): same or different payload
        let mut dupfree = true;
        if rng.gen_bool(0.25) {
            for _ in 0..rng.gen_range(1..=2) {
                let src = seq[rng.gen_range(0..seq.len())].clone();
                let data = if rng.gen_bool(0.5) { src.data.clone() } else { gen_payload(&mut rng) };
                seq.push(Emission { ch: src.ch, key: src.key, data });
                dupfree = false;
            }
        }
        for run in 0..n_shuffles {
            let mut order: Vec<usize> = (0..seq.len()).collect();
            if run > 0 {
                order.shuffle(&mut rng);
            }
            let refs: Vec<&Emission> = order.iter().map(|&i| &seq[i]).collect();
            let mut notes = Vec::new();
            let o = match util::catch(|| run_bus(&t, &pol, &refs, run % 2 == 0, &mut notes)) {
                Ok(o) => o,
                Err(p) => {
                    res.line(&json!({"set": set, "run": run, "panic": p}));
                    continue;
                }
            };
            let start = line + 1;
            tr.line(&json!({"event": "reset", "set": set, "run": run,
                "pol": chs.iter().filter(|&&c| pol[c].is_some()).map(|&c| json!([c, pol_names[c]])).collect::<Vec<_>>()}));
            line += 1;
            for (e, ok) in refs.iter().zip(o.oks.iter()) {
                tr.line(&json!({"event": "emit", "ch": e.ch, "key": key_chunks(&e.key), "data": e.data, "ok": ok}));
                line += 1;
            }
            tr.line(&json!({"event": "finalize",
                "channels": o.channels.iter().map(|(c, d)| json!({"ch": c, "data": d})).collect::<Vec<_>>(),
                "errors": o.errors.iter().map(|(c, n, k)| json!({"ch": c, "count": n, "kind": k})).collect::<Vec<_>>()}));
            line += 1;
            let mut r = o.json();
            r["set"] = json!(set);
            r["run"] = json!(run);
            r["dupfree"] = json!(dupfree);
            r["start"] = json!(start);
            r["end"] = json!(line);
            r["n"] = json!(seq.len());
            r["notes"] = json!(notes);
            r["pol"] = json!(chs.iter().map(|&c| json!([c, pol_names[c]])).collect::<Vec<_>>());
            r["emits"] = json!(refs.iter().map(|e| json!([e.ch, hex::encode(e.key.scope_hash), e.key.rule_id, e.key.subkey, hex::encode(&e.data)])).collect::<Vec<_>>());
            if run == 0 {
                if let Some(rk) = rekey_check(&t, &pol, &seq, &o) {
                    r["rekey_violation"] = rk;
                }
            }
            res.line(&r);
        }
    }
    tr.finish();
    res.finish();
    0
}

pub fn run(args: &[String]) -> i32 {
    match args.first().map(String::as_str) {
        Some("trace") if args.len() == 3 => trace(&args[1], &args[2]),
        Some("replay") if args.len() == 3 => replay(&args[1], &args[2]),
        _ if args.len() == 2 => replay(&args[0], &args[1]),
        _ => {
            eprintln!("usage: echo-verif c18 [replay] <cases.ndjson> <results.ndjson> | c18 trace <trace.ndjson> <results.ndjson>");
            2
        }
    }
}
