"""C01 - a tick's outcome depends on the candidate set, never on arrival order.

MC : MC_C01.tla (Tick.tla over Graph/Scheduler): for every pre-state, every enqueue sequence
     (orders and repetitions) over the candidate universe, then Drain/Reserve/Commit; invariants:
     committed outcome = TickOracle(pre, candidate SET), drain sorted, accepted pairwise independent,
     post = pre patched by exactly the accepted effects evaluated at pre, patch replays, post well-formed.
RP : every behaviour is replayed into a real Engine for 4 configurations (Radix/Legacy x 1/4 workers);
     receipt (order, dispositions, blockers), post-state and patch replay are decided against the oracle.
MR : all behaviours of one (pre-state, candidate set) group, across all configurations, must have
     bit-identical state root, patch digest, commit id, plan/decision/rewrites digests and receipt digest.
Several id salts are run so that several canonical key orders of the same candidates are explored.
"""
import os
import zlib
from lib import *


def run(tier, replay=None):
    ck = Check("C01", tier)
    binp = build_harness()
    salts = ["", "b"] if tier == "quick" else ["", "b", "c", "d"]
    # thorough: TLC checks the invariants on the whole model (3.2 M states per id salt); replaying all 416 k exported
    # behaviours per salt into the real engine (4 configurations each) would take hours, so whole permutation groups
    # (same pre-state and candidate set, every enqueue order / duplication of it) are sampled by a fixed hash rule
    replay_target = None if tier == "quick" else 50000
    sampling = []
    cfgs = ["MC_C01_quick.cfg", "MC_C01_repeats.cfg"] if tier == "quick" else ["MC_C01_thorough.cfg", "MC_C01_repeats.cfg"]
    cfg = cfgs
    total = nontrivial = drift = groups_n = 0
    if replay:
        obj = json.load(open(replay))["case"]
        runs = [(obj.get("salt", ""), obj["cases"])]
    else:
        runs = []
        for salt in salts:
            ids = id_ranks(binp, salt)
            cases = []
            for one in cfgs:
                if one == "MC_C01_repeats.cfg" and salt != salts[0]:
                    continue
                res = tlc("MC_C01", one, workers=8, env={"VERIF_IDS": ids}, timeout=7200, tags=("CASE",), out_name=f"c01_{salt}_{one[:-4]}")
                ck.add_tlc(res)
                if res.violation:
                    ck.violation(f"spec:{one}:{res.violation}", "TLC invariant violated on the model:\n" + res.error_text[:3000],
                                 {"cfg": one, "salt": salt, "invariant": res.violation, "trace": res.error_text[:20000]})
                    continue
                if not res.lines:
                    raise ToolError(f"{one}: nothing exported")
                got = [c for _, c in res.lines]
                if replay_target and len(got) > replay_target:
                    n = -(-len(got) // replay_target)
                    kept = [c for c in got if zlib.crc32(json.dumps([c.get("preName"), c["order"]], sort_keys=True).encode()) % n == 0]
                    sampling.append({"salt": salt, "cfg": one, "exported": len(got), "replayed": len(kept),
                                     "rule": f"whole permutation groups with crc32(preName, drain order) % {n} == 0"})
                    got = kept
                cases += got
            runs.append((salt, cases))
    for salt, cases in runs:
        cin = write_ndjson(os.path.join(WORK, f"c01_{salt}.cases"), cases)
        cout = os.path.join(WORK, f"c01_{salt}.results")
        harness(binp, ["c01", cin, cout], timeout=7200, env={"VERIF_ID_SALT": salt})
        results = read_ndjson(cout)
        if len(results) != len(cases):
            raise ToolError("harness result count mismatch")
        groups = {}
        for c, r in zip(cases, results):
            total += 1
            slim = {"salt": salt, "cases": [c]}
            if r["verdict"] == "violation":
                ck.violation(f"{r['kind']}:{r.get('group')}", r.get("detail", ""), slim)
                continue
            if r.get("rejected", 0) > 0 or len(c["seq"]) != len(c["order"]):
                nontrivial += 1
            if r.get("drift"):
                drift += 1
                if len(ck.notes) < 5:
                    ck.notes.append({"model_drift": r["drift"][:2]})
            g = groups.setdefault(r["group"], [])
            g.append((c, r["hashes"]))
        for gname, members in groups.items():
            groups_n += 1
            ref = None
            for c, hs in members:
                for cfgname, h in hs.items():
                    if ref is None:
                        ref = (h, c, cfgname)
                    elif h != ref[0]:
                        ck.violation(f"outcome_depends_on_order_or_config:{gname}",
                                     f"hashes differ within one (pre-state, candidate set) group: {cfgname} {h} vs {ref[2]} {ref[0]}",
                                     {"salt": salt, "cases": [c, ref[1]]})
        if cases:
            mid = cases[len(cases) // 2]
            ck.sample({"salt": salt, "preName": mid["preName"], "seq": mid["seq"], "order": mid["order"], "acc": mid["acc"],
                       "blk": mid["blk"], "hashes": results[len(cases) // 2].get("hashes", {}).get("radix/1")})
    # --- large ticks through the public API, both sides of the 1024 threshold (TV) ----------
    big_runs = 0
    if not replay:
        trace = os.path.join(WORK, "c01_big.ndjson")
        bsum = json.loads(harness(binp, ["c01-big", trace, str(ck.seed), tier], timeout=7200).strip().splitlines()[-1])
        big_runs = bsum["runs"]
        for v in bsum.get("violations", []):
            ck.violation(f"big:{v['kind']}", v["detail"], {"salt": "", "cases": [], "big": v})
        res = tlc("TickTrace", "TickTrace.cfg", workers=1, env={"TRACE": trace},
                  java_opts="-Xss1g -Dtlc2.tool.queue.IStateQueue=StateDeque", timeout=7200, tags=(), out_name="c01_big")
        ck.add_tlc(res)
        if res.postcondition_failed or res.violation:
            keep = os.path.join(REPLAYS, f"C01-{ck.seed}-big.ndjson")
            shutil.copy(trace, keep)
            m = re.search(r'"REJECTED_AT", (\d+)', open(res.stdout_path).read())
            ck.violation("big_receipt_not_canonical_greedy", f"TickTrace rejected the receipt trace at line {m.group(1) if m else '?'}",
                         {"salt": "", "cases": [], "trace": keep})
        ck.cov["big_tick_runs"] = big_runs
    ck.cov["traces_validated_against_impl"] = total + big_runs
    if sampling:
        ck.cov["replay_sampling"] = sampling
    ck.cov["evaluations"] = total * 4
    ck.cov["distinct_nontrivial"] = nontrivial
    ck.cov["groups"] = groups_n
    ck.cov["model_drift_cases"] = drift
    ck.cov["rule"] = ("every enqueue sequence (order + repetition) of the bounded model %s for id salts %s, each replayed on 4 engine configurations; "
                      "non-trivial = the sequence contains a repetition or at least one candidate is rejected; sequences are distinct TLC behaviours" % (cfg, salts))
    ck.cov["exhaustive"] = replay is None and not sampling   # thorough replays a fixed sample of whole permutation groups
    ck.assumptions += ["bounded model (pre-states, candidate universe, MaxSeq/MaxDistinct in the cfg)", "table-driven rules with honest footprints (spec/Tick.tla Prog/DeclaredFP)",
                       "scope-hash order supplied by the harness per salt", "BLAKE3 collision-freeness for the metamorphic hash relation"]
    return ck.finish()
