\* C20 thorough, export: every memory-tier behaviour of 4 calls over 3 blobs, 2 coordinates; reads not own steps
SPECIFICATION Spec
CONSTANTS
  Blobs = {"a", "b", "c"}
  Coords = {"k0", "k1"}
  Tiers = {"mem"}
  Faults = {}
  MaxFaults = 0
  Size <- MC_Size
  MaxBytes = 3
  MemFastPath = FALSE
  ReadOps = FALSE
  WithIndex = TRUE
  Export = TRUE
  MaxLen = 4
INVARIANTS TypeOK Inv_GetIntact Inv_MemWellFormed Inv_CorruptionDetected Inv_HasMeansGet Inv_LoadIntact Inv_Export
PROPERTIES P_MismatchRefused P_PutIdempotent P_PinKeepsContent P_ReadsReadOnly P_Reopen P_IndexStable
CONSTRAINT DepthBound
CHECK_DEADLOCK FALSE
