SPECIFICATION Spec
CONSTANTS
  ASlots = {"n1", "n2", "n3"}
  NSlots = {"n4"}
  Prog <- MC_Prog
  None = None
  AsBuiltClean = FALSE
  MaxPre = 1
  MaxPPost = 1
  MaxSTicks = 1
  MaxSTicks2 = 1
  MaxTotal = 2
  MaxStrands = 2
  MaxSettles = 2
  PrePool = {1}
  Pre2Pool = {2}
  PPool = {2}
  SPool = {5, 10}
  SecondSrc = {"P", "A"}
  SecondForkTip = TRUE
  PinLastOnly = TRUE
  Export = TRUE
INVARIANTS ForkIsExactPrefix NoSharedHeads LaneIsolation StrandTicksDontTouchParent ParentTicksDontTouchStrand PlanIsPure SettleAllOrNothing ImportedSlotsTakeStrandValues ParentChangedSlotsNeverOverwritten BlockingIsSticky ParentStaysReplayable ImportsReplayCleanly  Inv_Export
CHECK_DEADLOCK FALSE
