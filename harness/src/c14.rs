//! C14 (attribution): for every model state and every op of a fixed op universe, recompute on the
//! REAL store which observable locations the op changes and compare with the REAL
//! `footprint_guard::op_write_targets` (hook `verif::op_write_targets`). Uncovered
//! (op kind, location class) pairs are reported per state, next to the model's prediction.

use std::collections::BTreeSet;

use serde::Deserialize;
use serde_json::{json, Value};
use warp_core::{AttachmentOwner, TickPatchError, WarpOp, WarpState};

use crate::absgraph::{self, AttJ, KeyJ, OpJ, StateJ};
use crate::ids::{self, Inverse};
use crate::util;

#[derive(Deserialize)]
struct UncJ {
    op: String,
    loc: String,
}
#[derive(Deserialize)]
struct Case {
    s: StateJ,
    uncovered: Vec<UncJ>,
}

const NODES: &[&str] = &["n0", "n1"];
const EDGES: &[&str] = &["e0"];
const NTYPES: &[&str] = &["tA", "tB"];
const ETYPES: &[&str] = &["tA"];
const ATOMS: &[&str] = &["p0"];
const WARPS: &[&str] = &["w0", "w1"];

fn op(kind: &str) -> OpJ {
    OpJ { op: kind.into(), ..Default::default() }
}

fn op_universe(s: &StateJ) -> Vec<OpJ> {
    let mut out = Vec::new();
    let ws: Vec<&str> = s.inst.iter().map(|i| i.w.as_str()).collect();
    let key = |o: &str, w: &str, id: &str| KeyJ { o: o.into(), w: w.into(), id: id.into() };
    for w in &ws {
        for n in NODES {
            for t in NTYPES {
                out.push(OpJ { w: Some((*w).into()), n: Some((*n).into()), ty: Some((*t).into()), ..op("UpsertNode") });
            }
            out.push(OpJ { w: Some((*w).into()), n: Some((*n).into()), ..op("DeleteNode") });
            let mut vals: Vec<AttJ> = ATOMS.iter().map(|p| AttJ { k: "atom".into(), p: (*p).into(), ..Default::default() }).collect();
            vals.push(AttJ { k: "none".into(), ..Default::default() });
            for v in &vals {
                out.push(OpJ { key: Some(key("n", w, n)), value: Some(v.clone()), ..op("SetAttachment") });
            }
            for cw in ["w1"] {
                for t in NTYPES {
                    out.push(OpJ { key: Some(key("n", w, n)), child: Some(cw.into()), croot: Some("n0".into()), init: Some("empty".into()), ty: Some((*t).into()), ..op("OpenPortal") });
                }
            }
        }
        for e in EDGES {
            for f in NODES {
                for t in NODES {
                    for ty in ETYPES {
                        out.push(OpJ { w: Some((*w).into()), e: Some((*e).into()), from: Some((*f).into()), to: Some((*t).into()), ty: Some((*ty).into()), ..op("UpsertEdge") });
                    }
                }
                out.push(OpJ { w: Some((*w).into()), e: Some((*e).into()), from: Some((*f).into()), ..op("DeleteEdge") });
            }
            let mut vals: Vec<AttJ> = ATOMS.iter().map(|p| AttJ { k: "atom".into(), p: (*p).into(), ..Default::default() }).collect();
            vals.push(AttJ { k: "none".into(), ..Default::default() });
            for v in &vals {
                out.push(OpJ { key: Some(key("e", w, e)), value: Some(v.clone()), ..op("SetAttachment") });
            }
        }
        if *w != "w0" {
            out.push(OpJ { w: Some((*w).into()), ..op("DeleteWarpInstance") });
        }
    }
    out
}

type Loc = (String, String, String); // (class: node|edge|n|e, warp, id)

fn observable(state: &WarpState, inv: &Inverse) -> std::collections::BTreeMap<Loc, String> {
    let mut m = std::collections::BTreeMap::new();
    for w in WARPS {
        let store = state.store(&ids::warp(w));
        for n in NODES {
            let nid = ids::node(n);
            let rec = store.and_then(|s| s.node(&nid)).map(|r| inv.ty(&r.ty).unwrap_or("?"));
            let mut out: Vec<String> = store
                .map(|s| s.edges_from(&nid).map(|e| format!("{:?}->{:?}:{:?}", inv.edge(&e.id), inv.node(&e.to), inv.ty(&e.ty))).collect())
                .unwrap_or_default();
            out.sort();
            m.insert(("node".into(), (*w).into(), (*n).into()), format!("{rec:?}{out:?}"));
            let att = store.and_then(|s| s.node_attachment(&nid)).map(|a| format!("{a:?}"));
            m.insert(("n".into(), (*w).into(), (*n).into()), format!("{att:?}"));
        }
        for e in EDGES {
            let eid = ids::edge(e);
            let rec: Option<String> = store.and_then(|s| {
                s.iter_edges().flat_map(|(_, v)| v.iter()).find(|r| r.id == eid).map(|r| format!("{:?}->{:?}:{:?}", inv.node(&r.from), inv.node(&r.to), inv.ty(&r.ty)))
            });
            m.insert(("edge".into(), (*w).into(), (*e).into()), format!("{rec:?}"));
            let att = store.and_then(|s| s.edge_attachment(&eid)).map(|a| format!("{a:?}"));
            m.insert(("e".into(), (*w).into(), (*e).into()), format!("{att:?}"));
        }
    }
    m
}

fn loc_class(o: &OpJ, l: &Loc) -> String {
    let from_differs = o.from.as_deref() != Some(l.2.as_str());
    match (l.0.as_str(), o.op.as_str()) {
        ("node", "UpsertEdge" | "DeleteEdge") if from_differs => "node:other_than_declared_from".into(),
        ("node", "OpenPortal" | "DeleteWarpInstance") => "node:in_affected_instance".into(),
        ("edge", "DeleteWarpInstance") => "edge:in_affected_instance".into(),
        ("n" | "e", "DeleteWarpInstance") => "attachment:in_affected_instance".into(),
        (c, _) => format!("{c}:unclassified"),
    }
}

pub fn check_case(inv: &Inverse, v: &Value) -> Value {
    let case: Case = match serde_json::from_value(v.clone()) {
        Ok(c) => c,
        Err(e) => return json!({"verdict":"tool_error","detail":format!("case parse: {e}")}),
    };
    let state = absgraph::build_state(&case.s);
    let before = observable(&state, inv);
    let mut real: BTreeSet<(String, String)> = BTreeSet::new();
    let mut witness: Vec<Value> = Vec::new();
    let mut applied = 0u32;
    for o in op_universe(&case.s) {
        let Ok(real_op) = absgraph::op_to_real(&o) else { continue };
        let mut st = state.clone();
        let res = util::catch(|| warp_core::verif::apply_ops(&mut st, std::slice::from_ref(&real_op)));
        let ok = match res {
            Ok(Ok(())) => true,
            // the op itself applied; only the end-of-batch portal validation objected
            Ok(Err(TickPatchError::PortalInvariantViolation)) => matches!(real_op, WarpOp::DeleteWarpInstance { .. } | WarpOp::SetAttachment { .. } | WarpOp::DeleteNode { .. } | WarpOp::DeleteEdge { .. }),
            _ => false,
        };
        if !ok {
            continue;
        }
        applied += 1;
        let after = observable(&st, inv);
        let (nodes, edges, atts, _inst, op_warp) = warp_core::verif::op_write_targets(&real_op);
        let w = op_warp.and_then(|w| inv.warp(&w).ok()).unwrap_or("?").to_string();
        let mut attributed: BTreeSet<Loc> = BTreeSet::new();
        for n in nodes {
            attributed.insert(("node".into(), w.clone(), inv.node(&n).unwrap_or("?").into()));
        }
        for e in edges {
            attributed.insert(("edge".into(), w.clone(), inv.edge(&e).unwrap_or("?").into()));
        }
        for a in atts {
            match a.owner {
                AttachmentOwner::Node(nk) => attributed.insert(("n".into(), inv.warp(&nk.warp_id).unwrap_or("?").into(), inv.node(&nk.local_id).unwrap_or("?").into())),
                AttachmentOwner::Edge(ek) => attributed.insert(("e".into(), inv.warp(&ek.warp_id).unwrap_or("?").into(), inv.edge(&ek.local_id).unwrap_or("?").into())),
            };
        }
        for (loc, val) in &before {
            if after.get(loc) != Some(val) && !attributed.contains(loc) {
                let cls = loc_class(&o, loc);
                if real.insert((o.op.clone(), cls.clone())) && witness.len() < 8 {
                    witness.push(json!({"op": o, "loc": loc, "class": cls}));
                }
            }
        }
    }
    let model: BTreeSet<(String, String)> = case.uncovered.iter().map(|u| (u.op.clone(), u.loc.clone())).collect();
    let mut drift = Vec::new();
    if model != real {
        drift.push(format!("uncovered classes: real {real:?} model {model:?}"));
    }
    json!({"verdict":"ok","uncovered": real.iter().map(|(o, l)| format!("{o}:{l}")).collect::<Vec<_>>(),
           "witness": witness, "applied": applied, "drift": drift})
}

pub fn run(args: &[String]) -> i32 {
    if args.len() < 2 {
        eprintln!("usage: echo-verif c14-attr <cases.ndjson> <results.ndjson>");
        return 2;
    }
    let inv = Inverse::new();
    let mut out = util::Out::create(&args[1]);
    let (mut n, mut tool) = (0u64, 0u64);
    for (i, v) in util::read_lines(&args[0]) {
        let mut r = check_case(&inv, &v);
        r["i"] = json!(i);
        n += 1;
        if r["verdict"] == "tool_error" {
            tool += 1;
        }
        out.line(&r);
    }
    out.finish();
    println!("{}", json!({"cases":n,"tool_errors":tool}));
    if tool > 0 { 2 } else { 0 }
}
